//! Random call histories over the whole Flow API (C09, C10, C12 and the generic `flow` domain).
use super::Ctx;
use crate::exec::hx;
use crate::rng::Rng;

pub const METHODS: [&str; 9] = ["GET", "HEAD", "POST", "PUT", "DELETE", "CONNECT", "OPTIONS", "TRACE", "PATCH"];

pub fn gen_stream(rng: &mut Rng) -> Vec<u8> {
    let mut s = Vec::new();
    if rng.chance(1, 4) {
        s.extend_from_slice(b"HTTP/1.1 100 Continue\r\n\r\n");
    } else if rng.chance(1, 8) {
        // a bare informational response other than 100 (no fields, with or without a reason phrase)
        s.extend_from_slice(*rng.pick(&[&b"HTTP/1.1 102 Processing\r\n\r\n"[..], &b"HTTP/1.1 101 \r\n\r\n"[..], &b"HTTP/1.0 199\r\n\r\n"[..], &b"HTTP/1.1 103 Early Hints\r\n\r\n"[..]]));
    }
    let status = *rng.pick(&[200u16, 200, 204, 300, 301, 302, 303, 304, 305, 307, 308, 399, 403, 404, 500, 101, 199, 999]);
    let ver = if rng.chance(1, 5) { "HTTP/1.0" } else { "HTTP/1.1" };
    let reason = *rng.pick(&[" OK", "", " ", " Some Reason\tHere", " \u{e9}"]);
    s.extend_from_slice(format!("{} {}{}\r\n", ver, status, reason).as_bytes());
    let framing = rng.below(5);
    let body: Vec<u8> = (0..rng.below(40)).map(|_| *rng.pick(b"ab\r\n0;x")).collect();
    if rng.chance(1, 4) {
        s.extend_from_slice(b"Connection: close\r\n");
    }
    if rng.chance(1, 6) {
        s.extend_from_slice(b"connection: keep-alive\r\n");
    }
    if rng.chance(1, 2) {
        let loc = *rng.pick(&["/a", "b/c?d=1#f", "../x/./y", "http://b.test/z", "https://a.test/s", "//A.Test:80/u/../v", "https://a.test:443", "?q=2", "", "http://", "http://a.test:99999/", "/a b", "http://a.test:8080/p/q/", "..", "./", "https://b.test:8443/p?x#y", "http:///g", "/%2e%2e/x", "\\x"]);
        s.extend_from_slice(format!("Location: {}\r\n", loc).as_bytes());
    }
    if rng.chance(1, 5) {
        s.extend_from_slice(b"X-Empty:\r\n");
    }
    if rng.chance(1, 8) {
        s.extend_from_slice(b"location:   http://b.test/z  \r\n");
    }
    match framing {
        0 => {
            s.extend_from_slice(format!("Content-Length: {}\r\n\r\n", body.len()).as_bytes());
            s.extend_from_slice(&body);
        }
        1 => {
            s.extend_from_slice(b"Transfer-Encoding: chunked\r\n\r\n");
            let mut off = 0;
            while off < body.len() {
                let n = 1 + rng.below(body.len() - off);
                s.extend_from_slice(format!("{:x}\r\n", n).as_bytes());
                s.extend_from_slice(&body[off..off + n]);
                s.extend_from_slice(b"\r\n");
                off += n;
            }
            s.extend_from_slice(b"0\r\n");
            if rng.chance(1, 3) {
                s.extend_from_slice(b"T: v\r\n");
            }
            s.extend_from_slice(b"\r\n");
        }
        2 => {
            s.extend_from_slice(b"\r\n");
            s.extend_from_slice(&body);
        }
        3 => {
            s.extend_from_slice(b"Content-Length: 0\r\n\r\n");
        }
        _ => {
            s.extend_from_slice(format!("transfer-encoding: gzip, Chunked\r\nContent-Length: {}\r\n\r\n", body.len()).as_bytes());
            if !body.is_empty() {
                s.extend_from_slice(format!("{:X}\r\n", body.len()).as_bytes());
                s.extend_from_slice(&body);
                s.extend_from_slice(b"\r\n");
            }
            s.extend_from_slice(b"0\r\n\r\n");
        }
    }
    s.extend_from_slice(b"HTTP/1.1 200 NEXT");
    s
}

pub fn gen_request(rng: &mut Rng) -> String {
    let m = *rng.pick(&METHODS);
    let v = if rng.chance(1, 30) { *rng.pick(&["HTTP/0.9", "HTTP/2.0", "HTTP/3.0"]) } else if rng.chance(1, 4) { "HTTP/1.0" } else { "HTTP/1.1" };
    let uri = *rng.pick(&["http://a.test/", "http://a.test", "https://a.test:8443/p/q?x=1", "http://a.test/p", "https://a.test/d/e/f", "http://A.test/p"]);
    let mut hdrs: Vec<(String, Vec<u8>)> = vec![];
    if rng.chance(1, 3) { hdrs.push(("expect".into(), b"100-continue".to_vec())); }
    if rng.chance(1, 4) { hdrs.push(("connection".into(), b"close".to_vec())); }
    if rng.chance(1, 4) { hdrs.push(("content-length".into(), rng.pick(&[&b"0"[..], &b"7"[..], &b"30"[..], &b"abc"[..], &b"+5"[..]]).to_vec())); }
    if rng.chance(1, 6) { hdrs.push(("transfer-encoding".into(), rng.pick(&[&b"chunked"[..], &b"Chunked"[..], &b"gzip"[..]]).to_vec())); }
    if rng.chance(1, 6) { hdrs.push(("host".into(), b"h.test".to_vec())); }
    if rng.chance(1, 3) { hdrs.push(("x-a".into(), b"1".to_vec())); }
    if rng.chance(1, 3) { hdrs.push(("authorization".into(), b"secret".to_vec())); }
    if rng.chance(1, 4) { hdrs.push(("cookie".into(), b"c=old".to_vec())); }
    // list-valued / repeated fields: a second Cookie, Authorization or Expect line
    if rng.chance(1, 6) { hdrs.push(("cookie".into(), b"d=2".to_vec())); if rng.chance(1, 2) { hdrs.push(("cookie".into(), b"e=3".to_vec())); } }
    if rng.chance(1, 10) { hdrs.push(("authorization".into(), b"second".to_vec())); hdrs.push(("authorization".into(), b"third".to_vec())); }
    if rng.chance(1, 10) { hdrs.insert(0, ("expect".into(), b"x-quota=strict".to_vec())); hdrs.push(("expect".into(), b"100-continue".to_vec())); }
    let mut line = format!("{} {} {} {}", m, v, uri, hdrs.len());
    for (k, val) in &hdrs {
        line.push_str(&format!(" {} {}", k, hx(val)));
    }
    line
}

/// one random history on a fresh flow; `stream` provides the server bytes
pub fn history(cx: &mut Ctx, rng: &mut Rng, max_steps: usize) {
    let req = gen_request(rng);
    let r = cx.rec.new_flow(&req);
    if r != "ok" {
        return;
    }
    let mut stream = gen_stream(rng);
    let body_in: Vec<u8> = (0..rng.below(60)).map(|i| b'a' + (i % 26) as u8).collect();
    let mut soff = 0usize;
    let mut boff = 0usize;
    let mut steps = 0;
    let mut can_resp = false;
    while steps < max_steps {
        steps += 1;
        let st = cx.rec.state();
        let op: String = match st {
            "gone" => break,
            "cleanup" if steps > 1 && rng.chance(1, 2) => break,
            "prepare" => match rng.below(6) {
                0 => format!("hdr {} {}", rng.pick(&["cookie", "x-b", "authorization", "content-length", "host"]), hx(*rng.pick(&[&b"v"[..], &b"5"[..], &b"c=1"[..]]))),
                1 => "despite".into(),
                _ => "proceed".into(),
            },
            "sendRequest" => match rng.below(9) {
                0 => "canproceed".into(),
                1 | 2 => "proceed".into(),
                8 => if rng.chance(1, 3) { "proceed!".into() } else { "proceed".into() },
                _ => format!("write {}", rng.pick(&[0usize, 5, 17, 18, 19, 30, 40, 64, 200, 1000])),
            },
            "await100" => match rng.below(6) {
                0 => "keep100".into(),
                1 => "proceed".into(),
                _ => {
                    let n = 1 + rng.below(stream.len() - soff.min(stream.len() - 1));
                    let w = &stream[soff.min(stream.len())..(soff + n).min(stream.len())];
                    format!("read100 {}", hx(w))
                }
            },
            "sendBody" => match rng.below(13) {
                0 => "canproceed".into(),
                1 | 2 => "proceed".into(),
                12 => if rng.chance(1, 3) { "proceed!".into() } else { "proceed".into() },
                3 => format!("maxin {}", rng.below(30000)),
                4 => "chunked?".into(),
                5 => format!("direct {}", rng.below(8)),
                6 => format!("bwrite - {}", rng.pick(&[0usize, 3, 4, 5, 6, 100])),
                _ => {
                    let k = rng.below(body_in.len() - boff + 1).min(30);
                    format!("bwrite {} {}", hx(&body_in[boff..boff + k]), rng.pick(&[0usize, 5, 6, 7, 12, 21, 22, 40, 100]))
                }
            },
            "recvResponse" if can_resp && rng.chance(7, 8) => "proceed".into(),
            "recvResponse" => match rng.below(8) {
                0 => "canproceed".into(),
                1 => "proceed".into(),
                _ => {
                    let rem = stream.len() - soff;
                    let n = if rng.chance(1, 3) { rem } else { rng.below(rem + 1) };
                    format!("resp {}", hx(&stream[soff..soff + n]))
                }
            },
            "recvBody" => match rng.below(13) {
                0 => "canproceed".into(),
                1 => "proceed".into(),
                12 => if rng.chance(1, 4) { "proceed!".into() } else { "proceed".into() },
                2 => "boundary".into(),
                3 => "mode".into(),
                4 => format!("stopb {}", rng.below(2)),
                _ => {
                    let rem = stream.len() - soff;
                    let n = if rng.chance(1, 3) { rem } else { rng.below(rem + 1) };
                    format!("bread {} {}", hx(&stream[soff..soff + n]), rng.pick(&[0usize, 1, 2, 3, 7, 100]))
                }
            },
            "redirect" => match rng.below(10) {
                0 => "status".into(),
                1 => "close?".into(),
                2 => "reason".into(),
                3 => "proceed".into(),
                4 => format!("follow2 {}", rng.pick(&["never", "samehost"])),
                _ => format!("follow {}", rng.pick(&["never", "samehost"])),
            },
            "cleanup" => match rng.below(2) {
                0 => "close?".into(),
                _ => "reason".into(),
            },
            _ => break,
        };
        let res = cx.op(&op);
        let p: Vec<&str> = res.split(' ').collect();
        if op.starts_with("read100") && p[0] == "count" {
            soff += p[1].parse::<usize>().unwrap_or(0);
        }
        if op.starts_with("resp") && p[0] == "resp" {
            soff += p[1].parse::<usize>().unwrap_or(0);
            if p.len() > 2 && p[2] != "none" {
                can_resp = true;
            }
        }
        if op.starts_with("bread") && p[0] == "bytes" {
            soff += p[1].parse::<usize>().unwrap_or(0);
        }
        if op.starts_with("bwrite") && p[0] == "bytes" {
            boff += p[1].parse::<usize>().unwrap_or(0);
        }
        if op.starts_with("follow ") && p[0] == "flow" {
            stream = gen_stream(rng);
            soff = 0;
            boff = 0;
            can_resp = false;
        }
    }
}

pub fn random_histories(cx: &mut Ctx, n: usize) {
    for _ in 0..n {
        let mut r = cx.case("hist");
        history(cx, &mut r, 120);
    }
}

pub fn c09(cx: &mut Ctx) {
    // permitted, if pointless: the complete head presented to try_response several times before advancing (a
    // caller that re-parses on every socket read), and the refusal looked at several times while awaiting
    for (req, expect) in [("GET HTTP/1.1 http://a.test/ 0", false), ("POST HTTP/1.0 http://a.test/ 3 connection 636c6f7365 expect 3130302d636f6e74696e7565 content-length 33", true), ("POST HTTP/1.1 http://a.test/ 2 expect 3130302d636f6e74696e7565 content-length 33", true)] {
        for head in ["HTTP/1.1 200 OK\r\nConnection: close\r\nContent-Length: 0\r\n\r\n", "HTTP/1.0 403 No\r\nConnection: close\r\n\r\n", "HTTP/1.1 302 F\r\nLocation: /n\r\nconnection: close\r\nContent-Length: 0\r\n\r\n"] {
            for times in [1usize, 2, 6, 8] {
                cx.case("again");
                if cx.rec.new_flow(req) != "ok" { continue; }
                cx.op("proceed"); cx.op("write 4096"); cx.op("proceed");
                if expect {
                    if cx.rec.state() != "await100" { continue; }
                    for _ in 0..times.min(3) { cx.op(&format!("read100 {}", hx(head.as_bytes()))); cx.op("keep100"); }
                    cx.op("proceed");
                }
                if cx.rec.state() != "recvResponse" { continue; }
                for _ in 0..times { cx.op(&format!("resp {}", hx(head.as_bytes()))); cx.op("canproceed"); }
                cx.op("proceed");
                if cx.rec.state() == "recvBody" { cx.op(&format!("bread {} 100", hx(b"tail"))); cx.op("canproceed"); cx.op("proceed"); }
                if cx.rec.state() == "redirect" { cx.op("status"); cx.op("close?"); cx.op("proceed"); }
                cx.op("close?"); cx.op("reason");
            }
        }
    }
    // exhaustive short histories over a small menu: every op of every state, incl. premature advance
    let reqs = ["GET HTTP/1.1 http://a.test/ 0", "POST HTTP/1.1 http://a.test/ 1 content-length 33",
                "PUT HTTP/1.1 http://a.test/ 1 expect 3130302d636f6e74696e7565", "HEAD HTTP/1.0 http://a.test/ 0",
                "POST HTTP/1.0 http://a.test/ 0", "DELETE HTTP/1.1 http://a.test/ 1 expect 3130302d636f6e74696e7565",
                "GET HTTP/1.1 http://a.test/ 3 cookie 613d31 cookie 623d32 authorization 73",
                "POST HTTP/1.1 http://a.test/ 3 expect 782d713d31 content-length 33 expect 3130302d636f6e74696e7565"];
    let streams: [&[u8]; 8] = [b"HTTP/1.1 102 Processing\r\n\r\nHTTP/1.1 200 OK\r\nContent-Length: 0\r\n\r\n",
        b"HTTP/1.1 302 F\r\nLocation: /n\r\nContent-Length: 0\r\n\r\nHTTP/1.1 200 OK\r\nContent-Length: 0\r\n\r\n",b"HTTP/1.1 200 OK\r\nContent-Length: 3\r\n\r\nabcHTTP/1.1", b"HTTP/1.1 100 Continue\r\n\r\nHTTP/1.1 302 F\r\nLocation: /n\r\nTransfer-Encoding: chunked\r\n\r\n1\r\nx\r\n0\r\n\r\n",
        b"HTTP/1.1 403 Forbidden\r\n\r\n", b"HTTP/1.0 200 OK\r\n\r\nclose delimited", b"HTTP/1.1 301 M\r\nContent-Length: 0\r\n\r\n", b"HTTP/1.1 417 E\r\nX: y\r\nContent-Length: 0\r\n\r\n"];
    let menu: Vec<&str> = vec!["proceed", "proceed!", "canproceed", "write 1000", "write 9", "despite", "bwrite 616263 100", "bwrite - 100", "direct 3", "keep100", "READ", "follow never", "close?", "status"];
    let depth = if cx.thorough { 5 } else { 4 };
    for (ri, req) in reqs.iter().enumerate() {
        for (si, stream) in streams.iter().enumerate() {
            if !cx.thorough && (ri + si) % 2 == 1 { continue; }
            // enumerate op sequences of length `depth` after a fixed warm-up that reaches a random depth
            let total = menu.len().pow(2);
            for code in 0..total {
                cx.case("ex");
                if cx.rec.new_flow(req) != "ok" { continue; }
                let mut soff = 0usize;
                let mut ops: Vec<usize> = vec![code % menu.len(), (code / menu.len()) % menu.len()];
                // the canonical path interleaved with the two enumerated ops at positions chosen by the indices
                let canon = ["proceed", "write 1000", "proceed", "READ", "proceed", "bwrite 616263 100", "bwrite - 100", "proceed", "READ", "proceed", "READ", "proceed", "close?"];
                let pos_a = (ri * 3 + si) % 6;
                let pos_b = pos_a + 1 + (code % 5);
                let mut k = 0;
                for step in 0..(canon.len() + 2) {
                    let op = if step == pos_a || step == pos_b { let o = menu[ops.remove(0)]; o } else { let o = canon[k.min(canon.len() - 1)]; k += 1; o };
                    let _ = depth;
                    let st = cx.rec.state();
                    if st == "gone" { break; }
                    let text = if op == "READ" {
                        let w = &stream[soff.min(stream.len())..];
                        match st { "await100" => format!("read100 {}", hx(w)), "recvResponse" => format!("resp {}", hx(w)), "recvBody" => format!("bread {} 100", hx(w)), _ => continue }
                    } else { op.to_string() };
                    let res = cx.op(&text);
                    let p: Vec<&str> = res.split(' ').collect();
                    if text.starts_with("read100") && p[0] == "count" { soff += p[1].parse::<usize>().unwrap_or(0); }
                    if text.starts_with("resp") && p[0] == "resp" { soff += p[1].parse::<usize>().unwrap_or(0); }
                    if text.starts_with("bread") && p[0] == "bytes" { soff += p[1].parse::<usize>().unwrap_or(0); }
                }
            }
        }
    }
    // every close condition at once: HTTP/1.0, Connection: close sent, Expect refused, Connection: close received,
    // close-delimited body — the flow is driven to its end and asked for its verdict
    for (m, hd) in [("POST", "HTTP/1.1 403 No\r\nConnection: close\r\n\r\n"), ("POST", "HTTP/1.0 500 E\r\nconnection: close\r\nX: y\r\n\r\n"), ("PUT", "HTTP/1.1 200 OK\r\nConnection: close\r\n\r\n")] {
        for reqv in ["HTTP/1.0", "HTTP/1.1"] {
            if reqv == "HTTP/1.0" && m == "PUT" { continue; }
            cx.case("five");
            let req = format!("{} {} http://a.test/p {}", m, reqv, super::hdrs(&[("connection", b"close"), ("expect", b"100-continue"), ("content-length", b"3")]));
            if cx.rec.new_flow(&req) != "ok" { continue; }
            cx.op("proceed"); cx.op("write 1000"); cx.op("proceed");
            let mut stream = hd.as_bytes().to_vec();
            stream.extend_from_slice(b"rest of it");
            if cx.rec.state() == "await100" { cx.op(&format!("read100 {}", hx(&stream))); cx.op("keep100"); cx.op("proceed"); }
            if cx.rec.state() == "sendBody" { cx.op("bwrite 616263 100"); cx.op("proceed"); }
            cx.op(&format!("resp {}", hx(&stream)));
            cx.op("canproceed");
            cx.op("proceed");
            if cx.rec.state() == "recvBody" { cx.op(&format!("bread {} 100", hx(b"rest of it"))); cx.op("canproceed"); cx.op("proceed"); }
            cx.op("close?");
            cx.op("reason");
        }
    }
    // answers with bare-LF line ends (the parser takes them) while awaiting 100: a 100, a refusal with and without fields
    for ans in ["HTTP/1.1 100 Continue\n\n", "HTTP/1.1 403 Forbidden\n\n", "HTTP/1.1 417 No\nContent-Length: 0\n\n", "HTTP/1.1 403 Forbidden\r\n\n", "HTTP/1.1 100 Continue\n\r\n"] {
        for req in ["PUT HTTP/1.1 http://a.test/ 1 expect 3130302d636f6e74696e7565", "POST HTTP/1.1 http://a.test/ 2 expect 3130302d636f6e74696e7565 content-length 33"] {
            for looks in 1..=2 {
                cx.case("lf100");
                if cx.rec.new_flow(req) != "ok" { continue; }
                cx.op("proceed"); cx.op("write 1000"); cx.op("proceed");
                if cx.rec.state() != "await100" { continue; }
                let mut stream = ans.as_bytes().to_vec();
                stream.extend_from_slice(b"HTTP/1.1 200 OK\r\nContent-Length: 0\r\n\r\n");
                let mut soff = 0usize;
                if looks == 2 { cx.op(&format!("read100 {}", hx(&stream[..9]))); cx.op("keep100"); }
                let res = cx.op(&format!("read100 {}", hx(&stream[..ans.len()])));
                if let Some(n) = res.strip_prefix("count ") { soff = n.parse().unwrap_or(0); }
                cx.op("keep100");
                cx.op("proceed");
                if cx.rec.state() == "sendBody" { cx.op("bwrite 616263 100"); cx.op("bwrite - 100"); cx.op("canproceed"); cx.op("proceed"); }
                if cx.rec.state() == "recvResponse" { cx.op(&format!("resp {}", hx(&stream[soff..]))); cx.op("canproceed"); cx.op("proceed"); }
                cx.op("close?");
            }
        }
    }
    // a second hop: the flow as_new_flow returns is used to completion (request with repeated / list-valued
    // fields among those a redirect drops)
    for req in ["GET HTTP/1.1 http://a.test/ 3 cookie 613d31 cookie 623d32 x-a 31",
                "POST HTTP/1.1 http://a.test/ 4 authorization 73 content-length 33 authorization 74 cookie 63",
                "GET HTTP/1.0 http://a.test/p 1 cookie 613d31"] {
        for status in [301u16, 303, 307] {
            for pol in ["never", "samehost"] {
                cx.case("hop2");
                if cx.rec.new_flow(req) != "ok" { continue; }
                cx.op("proceed"); cx.op("write 1000"); cx.op("proceed");
                if cx.rec.state() == "sendBody" { cx.op("bwrite 616263 100"); cx.op("proceed"); }
                cx.op(&format!("resp {}", hx(format!("HTTP/1.1 {} R\r\nLocation: /next?q=1\r\nContent-Length: 0\r\n\r\n", status).as_bytes())));
                cx.op("proceed");
                if cx.rec.state() != "redirect" { continue; }
                cx.op(&format!("follow {}", pol));
                if cx.rec.state() != "prepare" { continue; }
                cx.op("proceed");
                cx.op("write 1000");
                cx.op("canproceed");
                cx.op("write 1000");
                cx.op("proceed");
                if cx.rec.state() == "recvResponse" {
                    cx.op(&format!("resp {}", hx(b"HTTP/1.1 200 OK\r\nContent-Length: 0\r\n\r\n")));
                    cx.op("proceed");
                    cx.op("close?");
                }
            }
        }
    }
    let n = if cx.thorough { 60000 } else { 5000 };
    random_histories(cx, n);
    // the size ladder over what arrives while the flow awaits 100 (reason phrase of a 100 and of a refusal): the
    // successor state follows from what was sent, at every length
    for l in super::ladder(cx.thorough, 65536) {
        for (ai, ans) in [format!("HTTP/1.1 100 {}\r\n\r\n", "c".repeat(l)), format!("HTTP/1.1 403 {}\r\nContent-Length: 0\r\n\r\n", "n".repeat(l))].iter().enumerate() {
            cx.case("ladder");
            let _ = ai;
            if cx.rec.new_flow("PUT HTTP/1.1 http://a.test/ 1 expect 3130302d636f6e74696e7565") != "ok" { continue; }
            cx.op("proceed"); cx.op("write 1000"); cx.op("proceed");
            if cx.rec.state() != "await100" { continue; }
            let mut stream = ans.as_bytes().to_vec();
            stream.extend_from_slice(b"HTTP/1.1 200 OK\r\nContent-Length: 0\r\n\r\n");
            let mut soff = 0usize;
            cx.op(&format!("read100 {}", hx(&stream[..ans.len() - 1])));
            cx.op("keep100");
            let res = cx.op(&format!("read100 {}", hx(&stream[..ans.len()])));
            if let Some(n) = res.strip_prefix("count ") { soff = n.parse().unwrap_or(0); }
            cx.op("keep100");
            cx.op("proceed");
            if cx.rec.state() == "sendBody" { cx.op("bwrite 616263 100"); cx.op("bwrite - 100"); cx.op("canproceed"); cx.op("proceed"); }
            if cx.rec.state() == "recvResponse" { cx.op(&format!("resp {}", hx(&stream[soff..]))); cx.op("canproceed"); cx.op("proceed"); }
            cx.op("close?");
        }
    }
}

/// drive a request/response exchange given as explicit pieces; asks the verdict in redirect and cleanup
fn c10_exchange(cx: &mut Ctx, req: &str, scenario: usize, stream: &[u8]) {
    c10_exchange_prep(cx, req, &[], scenario, stream)
}

/// the same, with operations made in the prepare state first (headers added by the caller)
fn c10_exchange_prep(cx: &mut Ctx, req: &str, prep: &[String], scenario: usize, stream: &[u8]) {
    if cx.rec.new_flow(req) != "ok" { return; }
    for p in prep { cx.op(p); }
    cx.op("proceed");
    cx.op("write 4096");
    cx.op("proceed");
    let mut soff = 0usize;
    if cx.rec.state() == "await100" {
        match scenario {
            2 | 3 | 4 => {
                // the server answers while we wait: a 100, or the final response
                let res = cx.op(&format!("read100 {}", hx(stream)));
                if let Some(n) = res.strip_prefix("count ") { soff = n.parse().unwrap_or(0); }
            }
            _ => {}
        }
        cx.op("proceed");
    }
    if cx.rec.state() == "sendBody" {
        if cx.op("chunked?") == "bool true" { cx.op("bwrite 6162 100"); cx.op("bwrite - 100"); } else { cx.op("bwrite 6162636465 100"); }
        cx.op("proceed");
    }
    for _ in 0..6 {
        match cx.rec.state() {
            "recvResponse" => {
                let res = cx.op(&format!("resp {}", hx(&stream[soff.min(stream.len())..])));
                let p: Vec<&str> = res.split(' ').collect();
                if p[0] != "resp" { return; }
                soff += p[1].parse::<usize>().unwrap_or(0);
                if p[2] != "none" { cx.op("proceed"); } else if p[1] == "0" { return; }
            }
            "recvBody" => {
                cx.op("mode");
                let res = cx.op(&format!("bread {} 1000", hx(&stream[soff.min(stream.len())..])));
                let p: Vec<&str> = res.split(' ').collect();
                if p[0] == "bytes" { soff += p[1].parse::<usize>().unwrap_or(0); }
                cx.op("proceed");
            }
            "redirect" => {
                cx.op("close?"); cx.op("reason");
                // the verdict belongs to one exchange: the flow made for the redirect starts afresh (only what the
                // request itself says — version, Connection — carries over)
                if cx.op("follow never").starts_with("flow ") {
                    cx.op("proceed"); cx.op("write 4096"); cx.op("proceed");
                    if cx.rec.state() == "recvResponse" {
                        cx.op(&format!("resp {}", hx(b"HTTP/1.1 200 OK\r\nContent-Length: 0\r\n\r\n")));
                        cx.op("proceed");
                    }
                    if cx.rec.state() == "cleanup" { cx.op("close?"); cx.op("reason"); }
                    return;
                }
                cx.op("proceed");
            }
            "cleanup" => { cx.op("close?"); cx.op("reason"); return; }
            _ => return,
        }
    }
}

pub fn c10(cx: &mut Ctx) {
    // round 18: the verdict speaks about the request as the caller made it — headers added in the prepare state
    // (another Connection value, unrelated fields) around an original `Connection: close` / keep-alive must not
    // change it, wherever the Connection field stands among the original fields
    {
        let origs: [&[(&str, &[u8])]; 6] = [
            &[("connection", b"close")], &[("accept", b"*/*"), ("connection", b"close")], &[("connection", b"close"), ("accept", b"*/*")],
            &[("accept", b"*/*"), ("connection", b"keep-alive"), ("connection", b"close")], &[("accept", b"*/*"), ("connection", b"keep-alive")], &[("accept", b"*/*")]];
        let preps: [&[(&str, &[u8])]; 5] = [
            &[("connection", b"keep-alive")], &[("x-added", b"1")], &[("accept", b"text/plain"), ("connection", b"keep-alive")],
            &[("connection", b"upgrade"), ("upgrade", b"h2c")], &[("connection", b"keep-alive"), ("connection", b"te")]];
        for orig in origs.iter() {
            for prep in preps.iter() {
                for (m, extra) in [("GET", None), ("POST", Some(("content-length", &b"5"[..])))] {
                    for head in ["HTTP/1.1 200 OK\r\nContent-Length: 0\r\n\r\n", "HTTP/1.1 302 F\r\nLocation: /n\r\nContent-Length: 0\r\n\r\n"] {
                        cx.case("prepared");
                        let mut hs: Vec<(&str, &[u8])> = orig.to_vec();
                        if let Some(e) = extra { hs.push(e); }
                        let req = format!("{} HTTP/1.1 http://a.test/p {}", m, super::hdrs(&hs));
                        let ops: Vec<String> = prep.iter().map(|(n, v)| format!("hdr {} {}", n, hx(v))).collect();
                        c10_exchange_prep(cx, &req, &ops, 0, head.as_bytes());
                    }
                }
            }
        }
    }
    // a redirect whose head never ends (broken server): the partial-redirect fallback accepts it; the
    // message boundaries are lost, so the connection must never be offered for reuse
    for reqv in ["HTTP/1.0", "HTTP/1.1"] {
        for conn in ["", "Connection: keep-alive\r\n", "connection: Keep-Alive\r\nConnection: keep-alive\r\n", "Connection: close\r\n"] {
            for order in 0..2 {
                for tail in ["", "Content-Le", "X: y\r\n", "X: y\r\n\r"] {
                    cx.case("lost");
                    let head = if order == 0 { format!("HTTP/1.1 302 Found\r\n{}Location: /next\r\n{}", conn, tail) } else { format!("HTTP/1.1 307 T\r\nLocation: /next\r\n{}{}", conn, tail) };
                    let req = format!("GET {} http://a.test/p 0", reqv);
                    c10_exchange(cx, &req, 0, head.as_bytes());
                }
            }
        }
    }
    // status codes on the class boundaries with no framing at all: only 3xx may go without a body
    for status in [199u16, 200, 299, 300, 304, 399, 400, 401, 499, 500, 599, 999] {
        for reqv in ["HTTP/1.1"] {
            cx.case("edge");
            let head = format!("HTTP/1.1 {} S\r\nX: y\r\n\r\n", status);
            let mut stream = head.into_bytes();
            stream.extend_from_slice(b"tail");
            c10_exchange(cx, &format!("GET {} http://a.test/p 0", reqv), 0, &stream);
        }
    }
    // a close-delimited body that the caller never reads (the peer closed right after the head, or the body is
    // discarded): can_proceed() is true at once, and the connection must close all the same
    for head in ["HTTP/1.1 200 OK\r\n\r\n", "HTTP/1.1 200 OK\r\nX: y\r\n\r\n", "HTTP/1.0 200 OK\r\nTransfer-Encoding: chunked\r\n\r\n", "HTTP/1.1 404 N\r\n\r\n"] {
        for reads in 0..3 {
            cx.case("noread");
            if cx.rec.new_flow("GET HTTP/1.1 http://a.test/p 0") != "ok" { continue; }
            cx.op("proceed"); cx.op("write 4096"); cx.op("proceed");
            cx.op(&format!("resp {}", hx(head.as_bytes())));
            cx.op("proceed");
            if cx.rec.state() != "recvBody" { continue; }
            match reads { 1 => { cx.op("bread - 10"); } 2 => { cx.op("bread 6162 10"); } _ => {} }
            cx.op("canproceed");
            cx.op("proceed");
            cx.op("close?");
            cx.op("reason");
        }
    }
    // a bare informational response other than 100 while awaiting 100 is "a non-100 response"
    for interim in ["HTTP/1.1 101 Switching\r\n\r\n", "HTTP/1.1 102 Processing\r\n\r\n", "HTTP/1.0 199 \r\n\r\n", "HTTP/1.1 103\r\n\r\n", "HTTP/1.1 100 Continue\r\n\r\n"] {
        for (m, despite) in [("POST", false), ("PUT", false)] {
            for fin in ["HTTP/1.1 200 OK\r\nContent-Length: 0\r\n\r\n", "HTTP/1.1 302 F\r\nLocation: /n\r\nContent-Length: 0\r\n\r\n"] {
                let _ = despite;
                cx.case("bare1xx");
                let req = format!("{} HTTP/1.1 http://a.test/p {}", m, super::hdrs(&[("content-length", b"5"), ("expect", b"100-continue")]));
                let mut stream = interim.as_bytes().to_vec();
                stream.extend_from_slice(fin.as_bytes());
                c10_exchange(cx, &req, 3, &stream);
            }
        }
    }
    // other spellings of the close option (letter case, a member of a list, padding): the verdict is compared with
    // the model; the oracle does not take sides on whether these "carry Connection: close"
    for v in ["Close", "CLOSE", "keep-alive, close", "close, keep-alive", "Keep-Alive,Close", "close,", "closed", "x-close", "keep-alive"] {
        for side in 0..2 {
            cx.case("spell");
            let req = if side == 0 { format!("GET HTTP/1.1 http://a.test/p {}", super::hdrs(&[("connection", v.as_bytes())])) } else { "GET HTTP/1.1 http://a.test/p 0".to_string() };
            let head = if side == 1 { format!("HTTP/1.1 200 R\r\nConnection: {}\r\nContent-Length: 0\r\n\r\n", v) } else { "HTTP/1.1 200 R\r\nContent-Length: 0\r\n\r\n".to_string() };
            c10_exchange(cx, &req, 0, head.as_bytes());
        }
    }
    // several Connection fields on one side, `close` first, in the middle or last, other fields in between
    for fields in [&["close", "keep-alive"][..], &["keep-alive", "close"], &["keep-alive", "close", "keep-alive"], &["close", "close"], &["keep-alive", "keep-alive"], &["close", "Upgrade"], &["TE", "close", "keep-alive"]] {
        for side in 0..2 {
            for (fh, fb) in [("Content-Length: 0\r\n", ""), ("Content-Length: 5\r\n", "hello"), ("Transfer-Encoding: chunked\r\n", "5\r\nhello\r\n0\r\n\r\n")] {
                for status in ["200", "204", "302"] {
                    cx.case("several");
                    let pairs: Vec<(&str, &[u8])> = fields.iter().map(|v| ("connection", v.as_bytes())).collect();
                    let req = if side == 0 { format!("GET HTTP/1.1 http://a.test/p {}", super::hdrs(&pairs)) } else { "GET HTTP/1.1 http://a.test/p 0".to_string() };
                    let mut head = format!("HTTP/1.1 {} R\r\n", status);
                    if status == "302" { head.push_str("Location: /next\r\n"); }
                    if side == 1 {
                        for (i, v) in fields.iter().enumerate() {
                            head.push_str(&format!("{}: {}\r\n", if i % 2 == 0 { "Connection" } else { "connection" }, v));
                            if i == 0 { head.push_str("X-Between: 1\r\n"); }
                        }
                    }
                    if status != "204" { head.push_str(fh); }
                    head.push_str("\r\n");
                    if status != "204" { head.push_str(fb); }
                    c10_exchange(cx, &req, 0, head.as_bytes());
                }
            }
        }
    }
    // a caller that keeps presenting what has arrived so far to try_read_100 after the refusal was recognised
    // (the head trickling in, the whole of it re-offered on every socket read), 2 … 9 times
    for (head, body) in [("HTTP/1.1 403 Forbidden\r\nContent-Length: 2\r\nX-A: 1\r\nX-B: 2\r\n\r\n", "no"), ("HTTP/1.1 403\r\n\r\n", ""), ("HTTP/1.0 417 E\r\nConnection: close\r\n\r\n", "bye")] {
        for reqv in ["HTTP/1.0", "HTTP/1.1"] {
            for creq in [false, true] {
                for times in [2usize, 5, 6, 9] {
                    cx.case("again100");
                    let mut hs: Vec<(&str, &[u8])> = vec![("content-length", b"5"), ("expect", b"100-continue")];
                    if creq { hs.insert(0, ("connection", b"close")); }
                    cx.rec.new_flow(&format!("POST {} http://a.test/p {}", reqv, super::hdrs(&hs)));
                    cx.op("proceed"); cx.op("write 4096"); cx.op("proceed");
                    if cx.rec.state() != "await100" { continue; }
                    let hb = head.as_bytes();
                    for i in 0..times {
                        // growing prefixes from the first complete line on, then the whole head repeatedly
                        let upto = (hb.len() * (i + 2) / (times + 1)).max(hb.iter().position(|&b| b == b'\n').unwrap() + 3).min(hb.len());
                        cx.op(&format!("read100 {}", hx(&hb[..upto])));
                        cx.op("keep100");
                    }
                    cx.op("proceed");
                    if cx.rec.state() == "sendBody" { cx.op("bwrite 68656c6c6f 100"); cx.op("proceed"); }
                    if cx.rec.state() != "recvResponse" { continue; }
                    let mut stream = hb.to_vec(); stream.extend_from_slice(body.as_bytes());
                    let res = cx.op(&format!("resp {}", hx(&stream)));
                    let used: usize = res.split(' ').nth(1).and_then(|v| v.parse().ok()).unwrap_or(0);
                    cx.op("proceed");
                    if cx.rec.state() == "recvBody" { cx.op(&format!("bread {} 100", hx(&stream[used.min(stream.len())..]))); cx.op("proceed"); }
                    cx.op("close?"); cx.op("reason");
                }
            }
        }
    }
    // the shortest answers a server can give while the client awaits 100 (status line without reason phrase, no
    // fields, bare-LF line ends), to requests that announce a body of 5 bytes, of 0 bytes, or a chunked one
    for answer in ["HTTP/1.1 204\r\n\r\n", "HTTP/1.1 304\r\n\r\n", "HTTP/1.1 301\r\n\r\n", "HTTP/1.1 101\r\n\r\n", "HTTP/1.1 204 \r\n\r\n", "HTTP/1.1 403\r\nContent-Length: 0\r\n\r\n",
                   "HTTP/1.1 417 No\r\nContent-Length: 0\r\n\r\n", "HTTP/1.1 403 Forbidden\n\n", "HTTP/1.1 204 No\nX: y\n\n", "HTTP/1.1 204\n\n", "HTTP/1.1 200 OK\r\nTransfer-Encoding: chunked\r\n\r\n0\r\n\r\n",
                   "HTTP/1.1 302 F\r\nLocation: /n\r\n\r\n", "HTTP/1.1 100 Continue\n\nHTTP/1.1 204 N\r\n\r\n", "HTTP/1.1 100\r\n\r\nHTTP/1.1 204 N\r\n\r\n"] {
        for cl in [Some("5"), Some("0"), Some("00"), None] {
            for m in ["POST", "PUT"] {
                cx.case("short");
                let mut hs: Vec<(&str, &[u8])> = vec![("expect", b"100-continue")];
                if let Some(v) = cl { hs.insert(0, ("content-length", v.as_bytes())); }
                let req = format!("{} HTTP/1.1 http://a.test/p {}", m, super::hdrs(&hs));
                c10_exchange(cx, &req, 3, answer.as_bytes());
            }
        }
    }
    let conn_req: [&[(&str, &[u8])]; 4] = [&[], &[("connection", b"close")], &[("connection", b"keep-alive")], &[("connection", b"keep-alive"), ("connection", b"close")]];
    let conn_resp: [&str; 4] = ["", "Connection: close\r\n", "Connection: keep-alive\r\n", "Connection: keep-alive\r\nconnection: close\r\n"];
    let statuses: [(u16, &str); 3] = [(200, ""), (302, "Location: /next\r\n"), (204, "")];
    let framings: [(&str, &str); 4] = [("Content-Length: 5\r\n", "hello"), ("Transfer-Encoding: chunked\r\n", "5\r\nhello\r\n0\r\n\r\n"), ("", "until close"), ("Content-Length: 0\r\n", "")];
    for reqv in ["HTTP/1.0", "HTTP/1.1"] {
        for creq in conn_req.iter() {
            for scenario in 0..6usize {
                // 0: GET; 1: POST with body; 2: POST expect -> 100; 3: expect -> refused, no fields; 4: expect -> refused with fields; 5: expect, give up
                for respv in [0u8, 1] {
                    for (status, loc) in statuses {
                        for (fh, fb) in framings {
                            for cresp in conn_resp {
                                cx.case("x");
                                let mut hs: Vec<(&str, &[u8])> = creq.to_vec();
                                let method = if scenario == 0 { "GET" } else { "POST" };
                                if scenario >= 1 { hs.push(("content-length", b"5")); }
                                if scenario >= 2 { hs.push(("expect", b"100-continue")); }
                                let req = format!("{} {} http://a.test/p {}", method, reqv, super::hdrs(&hs));
                                let mut stream = Vec::new();
                                if scenario == 2 { stream.extend_from_slice(b"HTTP/1.1 100 Continue\r\n\r\n"); }
                                let body_allowed = status != 204;
                                let head = if scenario == 3 {
                                    // refused without any field: bare status line, body can only be close-delimited
                                    format!("HTTP/1.{} {} R\r\n\r\n", respv, if status == 204 { 403 } else { status })
                                } else {
                                    format!("HTTP/1.{} {} R\r\n{}{}{}\r\n", respv, status, loc, if body_allowed { fh } else { "" }, cresp)
                                };
                                stream.extend_from_slice(head.as_bytes());
                                if body_allowed && scenario != 3 { stream.extend_from_slice(fb.as_bytes()); }
                                c10_exchange(cx, &req, scenario, &stream);
                            }
                        }
                    }
                }
            }
        }
    }
    // the size ladder over the fields the verdict is read from: a Connection value with many tokens in front of
    // `close`, other long fields in front of it, a long reason phrase, on both sides
    for l in super::ladder(cx.thorough, 65536) {
        let tokens = "keep-alive, ".repeat(l / 12);
        let pad = "p".repeat(l);
        let heads = [format!("HTTP/1.1 200 R\r\nConnection: {}close\r\nContent-Length: 0\r\n\r\n", tokens), format!("HTTP/1.1 200 R\r\nX-Pad: {}\r\nConnection: close\r\nContent-Length: 0\r\n\r\n", pad),
                     format!("HTTP/1.1 200 {}\r\nContent-Length: 0\r\nconnection: close\r\n\r\n", pad), format!("HTTP/1.1 200 R\r\nX-Pad: {}\r\nContent-Length: 0\r\n\r\n", pad), format!("HTTP/1.0 200 R\r\nX-Pad: {}\r\nContent-Length: 0\r\n\r\n", pad)];
        for head in &heads {
            cx.case("ladder");
            c10_exchange(cx, "GET HTTP/1.1 http://a.test/p 0", 0, head.as_bytes());
        }
        if l <= 8193 {
            cx.case("ladreq");
            let v = format!("{}close", tokens);
            let req = format!("GET HTTP/1.1 http://a.test/p {}", super::hdrs(&[("x-pad", pad.as_bytes()), ("connection", v.as_bytes())]));
            c10_exchange(cx, &req, 0, b"HTTP/1.1 200 R\r\nContent-Length: 0\r\n\r\n");
        }
    }
}

fn alpha_strings(alpha: &[u8], maxlen: usize, mut f: impl FnMut(&[u8])) {
    let mut cur: Vec<usize> = vec![];
    loop {
        let s: Vec<u8> = cur.iter().map(|&i| alpha[i]).collect();
        f(&s);
        let mut k = cur.len();
        loop {
            if k == 0 { cur = vec![0; cur.len() + 1]; break; }
            k -= 1;
            if cur[k] + 1 < alpha.len() { cur[k] += 1; for j in k + 1..cur.len() { cur[j] = 0; } break; }
        }
        if cur.len() > maxlen { break; }
    }
}

pub fn c12(cx: &mut Ctx) {
    let alpha: &[u8] = b"HTP/1.02 :;aF\r\n\t+-\x00\x7f\x80\xc2\xa0";
    let maxlen = if cx.thorough { 3 } else { 2 };
    let mut strings: Vec<Vec<u8>> = vec![];
    alpha_strings(alpha, maxlen, |s| strings.push(s.to_vec()));
    // one length more over the bytes the scanners branch on most
    alpha_strings(b"H1 :\r\n0a;", maxlen + 1, |s| if s.len() == maxlen + 1 { strings.push(s.to_vec()) });
    // (1) head-facing states: await100 and recvResponse, short strings as the whole input and after valid prefixes
    let prefixes: [&[u8]; 5] = [b"", b"HTTP/1.1 ", b"HTTP/1.1 200 OK\r\n", b"HTTP/1.1 200 OK\r\nA: b\r\n", b"HTTP/1.1 100 Continue\r\n"];
    for (pi, pre) in prefixes.iter().enumerate() {
        for chunk in strings.chunks(400) {
            cx.case("h100");
            cx.rec.new_flow("POST HTTP/1.1 http://a.test/ 1 expect 3130302d636f6e74696e7565");
            cx.op("proceed"); cx.op("write 1000"); cx.op("proceed");
            for s in chunk {
                if cx.rec.state() != "await100" {
                    cx.rec.new_flow("POST HTTP/1.1 http://a.test/ 1 expect 3130302d636f6e74696e7565");
                    cx.op("proceed"); cx.op("write 1000"); cx.op("proceed");
                }
                let mut w = pre.to_vec(); w.extend_from_slice(s);
                cx.op(&format!("read100 {}", hx(&w)));
                if cx.op("keep100") == "bool false" {
                    // a verdict was reached: the flow must remain usable
                    cx.op("proceed");
                    if cx.rec.state() == "recvResponse" { cx.op(&format!("resp {}", hx(&w))); cx.op("canproceed"); }
                    cx.rec.new_flow("POST HTTP/1.1 http://a.test/ 1 expect 3130302d636f6e74696e7565");
                    cx.op("proceed"); cx.op("write 1000"); cx.op("proceed");
                }
            }
            let _ = pi;
        }
        for chunk in strings.chunks(400) {
            cx.case("hresp");
            super::to_recv_response(cx, "GET", "HTTP/1.1");
            for s in chunk {
                if cx.rec.state() != "recvResponse" { super::to_recv_response(cx, "GET", "HTTP/1.1"); }
                let mut w = pre.to_vec(); w.extend_from_slice(s);
                let res = cx.op(&format!("resp {}", hx(&w)));
                if res.starts_with("resp") && !res.ends_with("none") {
                    cx.op("canproceed");
                    cx.op("proceed");
                    if cx.rec.state() == "recvBody" { cx.op(&format!("bread {} 10", hx(s))); cx.op("proceed"); }
                    super::to_recv_response(cx, "GET", "HTTP/1.1");
                }
            }
        }
    }
    // (2) body-facing states: chunked / length / close, every short string as the window, then follow-up reads
    let heads: [&[u8]; 3] = [b"HTTP/1.1 200 OK\r\nTransfer-Encoding: chunked\r\n\r\n", b"HTTP/1.1 200 OK\r\nContent-Length: 3\r\n\r\n", b"HTTP/1.0 200 OK\r\n\r\n"];
    let bpre: [&[u8]; 5] = [b"", b"3\r\n", b"3\r\nabc", b"0\r\n", b"0\r\nT: v\r\n"];
    for head in heads {
        for pre in bpre {
            for chunk in strings.chunks(60) {
                cx.case("body");
                for s in chunk {
                    let mut w = pre.to_vec(); w.extend_from_slice(s);
                    // every two-piece arrival of the window (the caller re-presents what was not consumed)
                    let cuts: Vec<usize> = if s.len() <= 2 { (0..=w.len()).collect() } else { vec![w.len()] };
                    for cut in cuts {
                        if !super::bodyr::to_recv_body(cx, "GET", head) { continue; }
                        let cap = 1 + (s.len() % 3) * 4;
                        let mut off = 0;
                        for upto in [cut, w.len()] {
                            for _ in 0..4 {
                                if off > upto { break; }
                                let res = cx.op(&format!("bread {} {}", hx(&w[off..upto]), cap));
                                let p: Vec<&str> = res.split(' ').collect();
                                if p[0] != "bytes" { break; }
                                let i: usize = p[1].parse().unwrap_or(0);
                                off += i;
                                if i == 0 && p[2] == "-" { break; }
                            }
                        }
                        cx.op("canproceed");
                        cx.op("proceed");
                    }
                }
            }
        }
    }
    // (3) grammar-aware mutations of valid exchanges under random schedules
    let n = if cx.thorough { 20000 } else { 2500 };
    for _ in 0..n {
        let mut r = cx.case("mut");
        let req = gen_request(&mut r);
        if cx.rec.new_flow(&req) != "ok" { continue; }
        let mut stream = gen_stream(&mut r);
        for _ in 0..r.range(1, 3) {
            if stream.is_empty() { break; }
            let pos = r.below(stream.len());
            match r.below(8) {
                0 => { stream[pos] ^= 1 << r.below(8); }
                1 => { stream.remove(pos); }
                2 => { let b = stream[pos]; stream.insert(pos, b); }
                3 => { let k = r.below(stream.len()); let piece: Vec<u8> = stream[k..(k + 8).min(stream.len())].to_vec(); for (j, b) in piece.iter().enumerate() { stream.insert(pos + j, *b); } }
                4 => { for (j, b) in b"99999999999999999999999".iter().enumerate() { stream.insert(pos + j, *b); } }
                5 => { stream.insert(pos, *r.pick(&[b'\r', b'\n'])); }
                6 => { let extra: Vec<u8> = (0..130).flat_map(|k| format!("x-{}: v\r\n", k).into_bytes()).collect(); let at = stream.windows(2).position(|w| w == b"\r\n").map(|p| p + 2).unwrap_or(0); for (j, b) in extra.iter().enumerate() { stream.insert(at + j, *b); } }
                _ => { stream.truncate(pos); }
            }
        }
        drive_with_stream(cx, &mut r, &stream);
    }
    // (4) the five close conditions at once, and repeated verdict calls (D5)
    cx.case("five");
    cx.rec.new_flow("POST HTTP/1.0 http://a.test/ 3 connection 636c6f7365 expect 3130302d636f6e74696e7565 content-length 35");
    cx.op("proceed"); cx.op("write 1000"); cx.op("proceed");
    let st: &[u8] = b"HTTP/1.0 403 No\r\nConnection: close\r\n\r\nbody";
    for _ in 0..3 { cx.op(&format!("read100 {}", hx(st))); }
    cx.op("proceed");
    for _ in 0..6 { cx.op(&format!("resp {}", hx(st))); }
    cx.op("proceed"); cx.op("mode"); cx.op(&format!("bread {} 100", hx(b"body"))); cx.op("proceed"); cx.op("close?"); cx.op("reason");
    // (6) chunk sizes at and around the machine word: the size line and the first data bytes in one window
    let sizes: [&[u8]; 10] = [b"ffffffffffffffff", b"fffffffffffffffe", b"FFFFFFFFFFFFFFF0", b"7fffffffffffffff", b"8000000000000000",
        b"ffffffffffffffff0", b"10000000000000000", b"+ffffffffffffffff", b"00000000000000000003", b"fffffffffffffff;x=1"];
    for size in sizes {
        for stop in [false, true] {
            cx.case("wordsize");
            for cap in [1usize, 7, 100] {
                for cut in [0usize, 3] {
                    if !super::bodyr::to_recv_body(cx, "GET", heads[0]) { continue; }
                    if stop { cx.op("stopb 1"); }
                    let mut w = size.to_vec(); w.extend_from_slice(b"\r\nabcdefgh\r\n0\r\n\r\n");
                    let mut off = 0;
                    for upto in [size.len() + 2 + cut, w.len()] {
                        for _ in 0..3 {
                            if off > upto { break; }
                            let res = cx.op(&format!("bread {} {}", hx(&w[off..upto]), cap));
                            let p: Vec<&str> = res.split(' ').collect();
                            if p[0] != "bytes" { break; }
                            let i: usize = p[1].parse().unwrap_or(0);
                            off += i;
                            if i == 0 && p[2] == "-" { break; }
                        }
                    }
                    cx.op("canproceed");
                    cx.op("proceed");
                }
            }
        }
    }
    // (6b) lines far longer than usual where a line end is searched for: a 9 KB and a 70 KB trailer field, a 9 KB
    // chunk extension (refused), whole and in pieces, in both APIs
    for (li, body) in [format!("3\r\nabc\r\n0\r\nX-Sig: {}\r\n\r\n", "s".repeat(9000)), format!("0\r\nA: 1\r\nX-Sig: {}\r\nB: 2\r\n\r\n", "t".repeat(70000)),
                       format!("3;{}\r\nabc\r\n0\r\n\r\n", "e".repeat(9000)), format!("0\r\n{}", "u".repeat(9000))].iter().enumerate() {
        for sched in 0..3 {
            cx.case("longline");
            let _ = li;
            let w = body.as_bytes();
            if sched < 2 {
                if !super::bodyr::to_recv_body(cx, "GET", heads[0]) { continue; }
            } else {
                if cx.rec.new_call("nobody", "GET HTTP/1.1 http://a.test/p 0") != "ok" { continue; }
                cx.op("cwrite 4096"); cx.op("cinto");
                cx.op(&format!("cresp {}", hx(heads[0])));
                if cx.op("cbody") != "state callRecvBody" { continue; }
            }
            let mut off = 0;
            let step = if sched == 1 { 4000 } else { w.len() };
            let mut upto = step.min(w.len());
            for _ in 0..60 {
                let res = cx.op(&format!("{} {} 100", if sched < 2 { "bread" } else { "cread" }, hx(&w[off..upto])));
                let p: Vec<&str> = res.split(' ').collect();
                if p[0] != "bytes" { break; }
                let i: usize = p[1].parse().unwrap_or(0);
                off += i;
                if i == 0 && p[2] == "-" { if upto >= w.len() { break; } upto = (upto + step).min(w.len()); }
            }
            if sched < 2 { cx.op("canproceed"); cx.op("proceed"); } else { cx.op("cended"); }
        }
    }
    // (6d) a field name longer than the http crate takes (65 535 bytes), in a head that is finished, and in one
    // whose blank line has not arrived yet (the partial parser looks at it then): both APIs and the parsers
    for nlen in [65535usize, 65536, 70000] {
        for st in ["200 OK", "302 Found"] {
            let long = format!("HTTP/1.1 {}\r\n{}: x\r\nLocation: /n\r\nContent-Length: 0\r\n", st, "a".repeat(nlen));
            let whole = format!("{}\r\n", long);
            let cut = &long[..long.find(": x\r\n").unwrap() + 5];
            for (k, w) in [whole.as_str(), long.as_str(), cut].iter().enumerate() {
                let _ = k;
                cx.case("longname");
                if super::head::to_recv_response_any(cx, "GET") { cx.op(&format!("resp {}", hx(w.as_bytes()))); cx.op(&format!("resp {}", hx(w.as_bytes()))); cx.op("canproceed"); }
                cx.case("longname");
                if cx.rec.new_call("nobody", "GET HTTP/1.1 http://a.test/p 0") == "ok" {
                    cx.op("cwrite 4096"); cx.op("cinto");
                    cx.op(&format!("cresp {}", hx(w.as_bytes())));
                }
                cx.case("longname");
                cx.op(&format!("parse-resp 128 {}", hx(w.as_bytes())));
                cx.op(&format!("parse-partial 128 {}", hx(w.as_bytes())));
                cx.op(&format!("parse-partial 1 {}", hx(w.as_bytes())));
            }
        }
        let req = format!("GET /p HTTP/1.1\r\n{}: x\r\nHost: a\r\n", "b".repeat(nlen));
        cx.case("longname");
        cx.op(&format!("parse-req 128 {}", hx(req.as_bytes())));
        cx.op(&format!("parse-req 128 {}", hx(format!("{}\r\n", req).as_bytes())));
    }
    // (6c) trailer fields named like framing fields, and reads that go on after a read failed (whatever they
    // return, they return)
    for body in ["3\r\nabc\r\n0\r\nContent-Length: 5\r\n\r\n", "0\r\nTransfer-Encoding: chunked\r\nX: y\r\n\r\n", "0\r\ncontent-length : 1\r\n\r\n", "1\r\naX\r\n\r\n0\r\n\r\n", "zz\r\n\r\n\r\n"] {
        for api in 0..2 {
            cx.case("afterr");
            let w = body.as_bytes();
            if api == 0 {
                if !super::bodyr::to_recv_body(cx, "GET", heads[0]) { continue; }
            } else {
                if cx.rec.new_call("nobody", "GET HTTP/1.1 http://a.test/p 0") != "ok" { continue; }
                cx.op("cwrite 4096"); cx.op("cinto");
                cx.op(&format!("cresp {}", hx(heads[0])));
                if cx.op("cbody") != "state callRecvBody" { continue; }
            }
            let rd = if api == 0 { "bread" } else { "cread" };
            let mut off = 0;
            // piecewise: each line on its own, going on whatever came back
            let mut cuts: Vec<usize> = w.iter().enumerate().filter(|(_, b)| **b == b'\n').map(|(i, _)| i + 1).collect();
            cuts.push(w.len());
            for upto in cuts {
                for _ in 0..2 {
                    let res = cx.op(&format!("{} {} 100", rd, hx(&w[off.min(upto)..upto])));
                    let p: Vec<&str> = res.split(' ').collect();
                    if p[0] == "bytes" { let i: usize = p[1].parse().unwrap_or(0); off += i; if i == 0 { break; } } else { break; }
                }
            }
            cx.op(&format!("{} {} 100", rd, hx(b"\r\n")));
            cx.op(&format!("{} {} 100", rd, hx(b"\r\n\r\n")));
            if api == 0 { cx.op("boundary"); cx.op("canproceed"); cx.op("proceed"); } else { cx.op("cboundary"); cx.op("cended"); }
        }
    }
    // (6d) the single-call API after a head that leaves no body to read: an interim 100 (no reader chosen yet),
    // Content-Length: 0, a 204 — into_body(), then whatever the result allows
    for head in ["HTTP/1.1 100 Continue\r\n\r\n", "HTTP/1.1 200 OK\r\nContent-Length: 0\r\n\r\n", "HTTP/1.1 204 N\r\n\r\n", "HTTP/1.1 102 P\r\n\r\n", "HTTP/1.1 200 OK\r\nContent-Length: 3\r\n\r\n"] {
        cx.case("callnobody");
        if cx.rec.new_call("nobody", "GET HTTP/1.1 http://a.test/p 0") != "ok" { continue; }
        cx.op("cwrite 4096"); cx.op("cinto");
        cx.op(&format!("cresp {}", hx(head.as_bytes())));
        cx.op("cfinished");
        let b = cx.op("cbody");
        if b == "state callRecvBody" {
            cx.op("cended"); cx.op("cboundary");
            cx.op(&format!("cread {} 100", hx(b"HTTP/1.1 200 OK\r\n\r\nabc")));
            cx.op("cended");
        }
    }
    // (7) hostile Location values, then as_new_flow and the flow it returns: errors are fine, panics are not
    let locs: [&[u8]; 26] = [b"", b" ", b"\t", b"#", b"#frag", b"?", b"?q", b"/", b"//", b"///", b"//b.test", b":", b"://", b"http:", b"http://",
        b"http://[::1", b"http://a.test:99999999999/", b"\\x", b"%", b"%zz", b"..", b"../../../..", b"\xff\xfe", b"http://\xe9.test/", b"a\x00b", b"HTTP://B.TEST:80/../%2e%2e/x?y#z"];
    for loc in locs {
        for status in [301u16, 307] {
            for m in ["GET", "HEAD", "DELETE", "OPTIONS"] {
                cx.case("hostloc");
                cx.rec.new_flow(&format!("{} HTTP/1.1 http://a.test/d/e?k=1 1 cookie 613d31", m));
                cx.op("proceed"); cx.op("write 2000"); cx.op("proceed");
                let mut head = format!("HTTP/1.1 {} R\r\nLocation:", status).into_bytes();
                head.extend_from_slice(loc);
                head.extend_from_slice(b"\r\nContent-Length: 0\r\n\r\n");
                cx.op(&format!("resp {}", hx(&head)));
                cx.op("proceed");
                if cx.rec.state() != "redirect" { continue; }
                cx.op("follow never");
                if cx.rec.state() == "prepare" {
                    cx.op("uri?");
                    cx.op("proceed"); cx.op("write 2000"); cx.op("proceed");
                    if cx.rec.state() == "recvResponse" {
                        let mut h2 = b"HTTP/1.1 302 R\r\nLocation: ".to_vec();
                        h2.extend_from_slice(loc);
                        h2.extend_from_slice(b"\r\nContent-Length: 0\r\n\r\n");
                        cx.op(&format!("resp {}", hx(&h2)));
                        cx.op("proceed");
                        if cx.rec.state() == "redirect" { cx.op("follow samehost"); cx.op("follow2 never"); }
                    }
                } else {
                    cx.op("proceed");
                    cx.op("close?");
                }
            }
        }
    }
    // (8) the single-call API facing the same bytes: try_response / read with empty, short and hostile inputs
    {
        let mut ins: Vec<Vec<u8>> = vec![vec![], b"\r".to_vec(), b"\n".to_vec(), b"H".to_vec(), b"HTTP/1.1 200 OK\r\n".to_vec(), b"HTTP/1.1 200 OK\r\nA: b\r\n\r".to_vec(),
            b"HTTP/1.1 301 M\r\nLocation: /x\r\n".to_vec(), b"HTTP/1.1 301 M\r\nLocation: /x\r\nA".to_vec(), b"HTTP/1.1 100 Continue\r\n\r\n".to_vec(), b"\x00\xff".to_vec()];
        for s in strings.iter().step_by(if cx.thorough { 3 } else { 17 }) { ins.push(s.clone()); }
        for chunk in ins.chunks(12) {
            cx.case("callh");
            for w in chunk {
                if cx.rec.state() != "callRecvResponse" {
                    if cx.rec.new_call("nobody", "GET HTTP/1.1 http://a.test/p 0") != "ok" { continue; }
                    cx.op("cwrite 2000");
                    cx.op("cinto");
                }
                cx.op(&format!("cresp {}", hx(w)));
                cx.op("cfinished");
            }
        }
        for (hi, head) in heads.iter().enumerate() {
            for chunk in ins.chunks(12) {
                cx.case("callb");
                let _ = hi;
                for w in chunk {
                    if cx.rec.state() != "callRecvBody" {
                        if cx.rec.new_call("nobody", "GET HTTP/1.1 http://a.test/p 0") != "ok" { continue; }
                        cx.op("cwrite 2000");
                        cx.op("cinto");
                        cx.op(&format!("cresp {}", hx(head)));
                        if cx.op("cbody") != "state callRecvBody" { break; }
                    }
                    cx.op("cended");
                    cx.op(&format!("cread {} {}", hx(w), [0usize, 1, 100][w.len() % 3]));
                    cx.op(&format!("cread - 10"));
                    cx.op(&format!("cread {} 0", hx(w)));
                }
            }
        }
    }
    // (5) a header name longer than 65535 bytes (D9)
    cx.case("longname");
    super::to_recv_response(cx, "GET", "HTTP/1.1");
    let mut big = b"HTTP/1.1 200 OK\r\n".to_vec();
    big.extend(std::iter::repeat(b'a').take(65536));
    big.extend_from_slice(b": v\r\n\r\n");
    cx.op(&format!("resp {}", hx(&big)));
    if cx.thorough {
        // (the model's scanner appends to its accumulators, so each of these costs seconds to replay)
        cx.op(&format!("parse-resp 4 {}", hx(&big)));
        cx.op(&format!("parse-partial 4 {}", hx(&big)));
        let mut bigreq = b"GET / HTTP/1.1\r\n".to_vec();
        bigreq.extend(std::iter::repeat(b'a').take(65536));
        bigreq.extend_from_slice(b": v\r\n\r\n");
        cx.op(&format!("parse-req 4 {}", hx(&bigreq)));
    }
    // the size ladder of bytes without any line end, offered wherever a line end is searched for: awaiting 100,
    // the response head, a chunk-size line, the trailer section
    let qmax = super::ladder_q(cx.thorough).last().copied().unwrap_or(0);
    for l in super::ladder(cx.thorough, 131072) {
        let junk: Vec<u8> = (0..l).map(|i| b"aZ09 :;=\t"[i % 9]).collect();
        cx.case("ladder");
        cx.rec.new_flow("POST HTTP/1.1 http://a.test/ 1 expect 3130302d636f6e74696e7565");
        cx.op("proceed"); cx.op("write 1000"); cx.op("proceed");
        for pre in [&b""[..], &b"HTTP/1.1 100 "[..], &b"HTTP/1.1 100 Continue\r\nX: "[..]] {
            if cx.rec.state() != "await100" { break; }
            if pre.ends_with(b"X: ") && l > qmax { continue; }
            let mut w = pre.to_vec(); w.extend_from_slice(&junk);
            cx.op(&format!("read100 {}", hx(&w)));
            cx.op("keep100");
        }
        cx.op("proceed");
        cx.case("ladder");
        if super::to_recv_response(cx, "GET", "HTTP/1.1") {
            for pre in [&b""[..], &b"HTTP/1.1 200 "[..], &b"HTTP/1.1 200 OK\r\nX: "[..], &b"HTTP/1.1 302 F\r\nLocation: /n\r\nX: "[..]] {
                if cx.rec.state() != "recvResponse" { break; }
                if pre.ends_with(b"X: ") && l > qmax { continue; }
                let mut w = pre.to_vec(); w.extend_from_slice(&junk);
                cx.op(&format!("resp {}", hx(&w)));
                cx.op("canproceed");
            }
        }
        for pre in [&b""[..], &b"3\r\nabc\r\n0\r\n"[..], &b"3\r\nabc\r\n0\r\nT: "[..], &b"3;"[..]] {
            cx.case("ladder");
            if !super::bodyr::to_recv_body(cx, "GET", heads[0]) { continue; }
            let mut w = pre.to_vec(); w.extend_from_slice(&junk);
            let mut off = 0;
            for _ in 0..4 {
                let res = cx.op(&format!("bread {} 100", hx(&w[off..])));
                let p: Vec<&str> = res.split(' ').collect();
                if p[0] != "bytes" { break; }
                let i: usize = p[1].parse().unwrap_or(0);
                off += i;
                if i == 0 && p[2] == "-" { break; }
            }
            cx.op("canproceed");
            cx.op("proceed");
        }
    }
}

/// drive whatever state the flow is in with the given server stream, random windows and buffers
fn drive_with_stream(cx: &mut Ctx, rng: &mut Rng, stream: &[u8]) {
    let mut soff = 0usize;
    for _ in 0..80 {
        let st = cx.rec.state();
        let rem = stream.len() - soff.min(stream.len());
        let n = if rng.chance(1, 2) { rem } else { rng.below(rem + 1) };
        let w = &stream[soff.min(stream.len())..soff.min(stream.len()) + n];
        let op: String = match st {
            "prepare" => "proceed".into(),
            "sendRequest" => if rng.chance(1, 2) { "write 2000".into() } else { "proceed".into() },
            "await100" => if rng.chance(1, 3) { "proceed".into() } else { format!("read100 {}", hx(w)) },
            "sendBody" => match rng.below(4) { 0 => "bwrite - 50".into(), 1 => "proceed".into(), 2 => "direct 5".into(), _ => "bwrite 6162636465 50".into() },
            "recvResponse" => if rng.chance(1, 4) { "proceed".into() } else { format!("resp {}", hx(w)) },
            "recvBody" => match rng.below(5) { 0 => "proceed".into(), 1 => format!("stopb {}", rng.below(2)), _ => format!("bread {} {}", hx(w), rng.pick(&[0usize, 1, 3, 100])) },
            "redirect" => match rng.below(3) { 0 => "proceed".into(), 1 => "close?".into(), _ => format!("follow {}", rng.pick(&["never", "samehost"])) },
            "cleanup" => { cx.op("close?"); break; }
            _ => break,
        };
        let res = cx.op(&op);
        let p: Vec<&str> = res.split(' ').collect();
        if op.starts_with("read100") && p[0] == "count" { soff += p[1].parse::<usize>().unwrap_or(0); }
        if op.starts_with("resp") && p[0] == "resp" { soff += p[1].parse::<usize>().unwrap_or(0); }
        if op.starts_with("bread") && p[0] == "bytes" { soff += p[1].parse::<usize>().unwrap_or(0); }
        if op.starts_with("follow") && p[0] == "flow" { soff = 0; }
    }
}
