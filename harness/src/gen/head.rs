use super::Ctx;
pub fn c05(_cx: &mut Ctx) {}
pub fn c06(_cx: &mut Ctx) {}
pub fn c11(_cx: &mut Ctx) {}
pub fn c20(_cx: &mut Ctx) {}
