//! Response / request heads: C05 (every prefix), C06 (framing decision), C11 (Expect: 100-continue),
//! C20 (standalone parsers).
use super::Ctx;
use crate::exec::hx;
use crate::rng::Rng;

#[derive(Clone)]
pub struct Field {
    pub name: Vec<u8>,
    pub pre: Vec<u8>,
    pub value: Vec<u8>,
    pub post: Vec<u8>,
}

#[derive(Clone)]
pub struct Head {
    pub version: u8,
    pub status: u16,
    pub reason: Option<Vec<u8>>,
    pub fields: Vec<Field>,
}

impl Head {
    pub fn enc(&self) -> Vec<u8> {
        let mut s = format!("HTTP/1.{} {:03}", self.version, self.status).into_bytes();
        if let Some(r) = &self.reason {
            s.push(b' ');
            s.extend_from_slice(r);
        }
        s.extend_from_slice(b"\r\n");
        s.extend_from_slice(&enc_fields(&self.fields));
        s.extend_from_slice(b"\r\n");
        s
    }
    pub fn meta(&self) -> String {
        let mut m = format!("head {} {} {} {}", self.version, self.status, match &self.reason { Some(r) => format!("r{}", hx(r)), None => "none".into() }, self.fields.len());
        m.push_str(&meta_fields(&self.fields));
        m
    }
}

pub fn enc_fields(fs: &[Field]) -> Vec<u8> {
    let mut s = Vec::new();
    for f in fs {
        s.extend_from_slice(&f.name);
        s.push(b':');
        s.extend_from_slice(&f.pre);
        s.extend_from_slice(&f.value);
        s.extend_from_slice(&f.post);
        s.extend_from_slice(b"\r\n");
    }
    s
}

pub fn meta_fields(fs: &[Field]) -> String {
    let mut m = String::new();
    for f in fs {
        m.push_str(&format!(" {} {} {} {}", hx(&f.name), hx(&f.pre), hx(&f.value), hx(&f.post)));
    }
    m
}

const NAMES: [&str; 14] = ["Content-Type", "X-A", "set-cookie", "Set-Cookie", "X-Trace-Id", "server", "x_b.c~d!", "a", "Date", "VIA", "via", "ETag", "x-empty", "Warning"];

fn ows(r: &mut Rng) -> Vec<u8> {
    (0..r.below(3)).map(|_| if r.chance(1, 3) { b'\t' } else { b' ' }).collect()
}

pub fn gen_value(r: &mut Rng) -> Vec<u8> {
    if r.chance(1, 6) { return vec![]; }
    let n = if r.chance(1, 20) { r.range(40, 200) } else { r.range(1, 16) };
    let mut v: Vec<u8> = (0..n).map(|_| match r.below(12) { 0 => b' ', 1 => b'\t', 2 => 0x80 + r.below(128) as u8, 3 => b':', _ => 33 + r.below(94) as u8 }).collect();
    // no leading / trailing whitespace in the value itself
    while v.first().map_or(false, |b| *b == b' ' || *b == b'\t') { v.remove(0); }
    while v.last().map_or(false, |b| *b == b' ' || *b == b'\t') { v.pop(); }
    v
}

pub fn gen_field(r: &mut Rng) -> Field {
    let name = if r.chance(1, 5) {
        let n = r.range(1, 12);
        (0..n).map(|_| *r.pick(b"abcdefghijklmnopqrstuvwxyzABCDEFGHIJKLMNOPQRSTUVWXYZ0123456789!#$%&'*+-.^_`|~")).collect()
    } else {
        r.pick(&NAMES).as_bytes().to_vec()
    };
    Field { name, pre: ows(r), value: gen_value(r), post: ows(r) }
}

pub fn gen_reason(r: &mut Rng) -> Option<Vec<u8>> {
    match r.below(6) {
        0 => None,
        1 => Some(vec![]),
        2 => Some(b"OK".to_vec()),
        3 => Some((0..r.range(20, 120)).map(|_| match r.below(8) { 0 => b' ', 1 => b'\t', 2 => 0x80 + r.below(128) as u8, _ => 33 + r.below(94) as u8 }).collect()),
        _ => Some(b"Some Reason Here".to_vec()),
    }
}

/// framing fields that keep the head acceptable to `try_response`
fn framing_fields(r: &mut Rng) -> Vec<Field> {
    let f = |n: &str, v: &str| Field { name: n.as_bytes().to_vec(), pre: b" ".to_vec(), value: v.as_bytes().to_vec(), post: vec![] };
    match r.below(6) {
        0 => vec![f("Content-Length", &r.below(100).to_string())],
        1 => vec![f("Transfer-Encoding", "chunked")],
        2 => vec![f("content-length", "0")],
        3 => vec![f("Connection", *r.pick(&["close", "keep-alive", "Close"]))],
        _ => vec![],
    }
}

pub fn gen_head(r: &mut Rng, nfields: usize, allow_100: bool) -> Head {
    let status = match r.below(8) {
        0 => *r.pick(&[200u16, 204, 304, 404, 500, 101, 199, 999, 600]),
        1 => *r.pick(&[301u16, 302, 303, 307, 308, 300, 399]),
        2 => r.range(101, 999) as u16,
        _ => 200,
    };
    let status = if !allow_100 && status == 100 { 200 } else { status };
    let mut fields: Vec<Field> = (0..nfields).map(|_| gen_field(r)).collect();
    let fr = framing_fields(r);
    for f in fr {
        if fields.len() < nfields.max(1) + 1 && nfields > 0 {
            let pos = r.below(fields.len() + 1);
            if fields.len() >= nfields { fields.remove(r.below(fields.len())); }
            let pos = pos.min(fields.len());
            fields.insert(pos, f);
        }
    }
    if (300..400).contains(&status) && r.chance(3, 4) && nfields > 0 {
        let loc = Field { name: b"Location".to_vec(), pre: b" ".to_vec(), value: r.pick(&["/x", "http://b.test/y", "../z?q=1"]).as_bytes().to_vec(), post: vec![] };
        let pos = r.below(fields.len() + 1);
        if fields.len() >= nfields { fields.remove(r.below(fields.len())); }
        let pos = pos.min(fields.len());
        fields.insert(pos, loc);
    }
    Head { version: if r.chance(1, 4) { 0 } else { 1 }, status, reason: gen_reason(r), fields }
}

fn fresh_recv(cx: &mut Ctx) -> bool {
    super::to_recv_response(cx, "GET", "HTTP/1.1")
}

fn prefix_lengths(r: &mut Rng, len: usize) -> Vec<usize> {
    if len <= 400 {
        (0..len).collect()
    } else {
        let mut v: Vec<usize> = (0..200).collect();
        v.extend(len - 200..len);
        for _ in 0..64 { v.push(r.below(len)); }
        v.sort();
        v.dedup();
        v
    }
}

pub fn c05(cx: &mut Ctx) {
    let tail: &[u8] = b"HTTP/1.1 200 OK\r\n\r\nxyz";
    let n = if cx.thorough { 2500 } else { 260 };
    for i in 0..n {
        let mut r = cx.case("head");
        let nf = match i % 10 { 0 => 0, 1 => 1, 9 => if i % 40 == 9 { 128 } else { r.range(20, 60) }, _ => r.range(1, 8) };
        let h = gen_head(&mut r, nf, false);
        let enc = h.enc();
        cx.meta(&h.meta());
        if !fresh_recv(cx) { continue; }
        for p in prefix_lengths(&mut r, enc.len()) {
            let res = cx.op(&format!("resp {}", hx(&enc[..p])));
            if res != "resp 0 none" {
                // something other than need-more-data: the flow may have changed, continue on a fresh one
                if !fresh_recv(cx) { break; }
            }
        }
        let mut full = enc.clone();
        if i % 3 != 0 { full.extend_from_slice(tail); }
        cx.op(&format!("resp {}", hx(&full)));
        cx.op("canproceed");
    }
    // the head is the refusal of an Expect: 100-continue request that the caller looked at several times while
    // it trickled in (what has arrived re-presented on every look), before taking it as the response
    for (k, looks) in [1usize, 3, 5, 6].iter().enumerate() {
        for reqv in ["HTTP/1.1", "HTTP/1.0"] {
            for creq in [false, true] {
              // what the refusal says about the connection: close / keep-alive / two fields / nothing
              for conn in 0..4usize {
                let mut r = cx.case("polled");
                let mk = |n: &str, v: &str| Field { name: n.as_bytes().to_vec(), pre: b" ".to_vec(), value: v.as_bytes().to_vec(), post: vec![] };
                let mut fields = vec![mk("Content-Length", "0"), mk("X-K", &k.to_string())];
                match conn {
                    0 => fields.insert(0, mk("Connection", "close")),
                    1 => fields.insert(1, mk("Connection", "keep-alive")),
                    2 => { fields.insert(0, mk("Connection", "keep-alive")); fields.push(mk("connection", "upgrade")); }
                    _ => {}
                }
                let h = Head { version: 1, status: *r.pick(&[403u16, 417, 200, 413]), reason: Some(b"No".to_vec()), fields };
                let enc = h.enc();
                cx.meta(&h.meta());
                let mut hs: Vec<(&str, &[u8])> = vec![("expect", b"100-continue"), ("content-length", b"3")];
                if creq { hs.insert(0, ("connection", b"close")); }
                cx.rec.new_flow(&format!("POST {} http://a.test/p {}", reqv, super::hdrs(&hs)));
                cx.op("proceed"); cx.op("write 4096"); cx.op("proceed");
                if cx.rec.state() != "await100" { continue; }
                let first_line = enc.iter().position(|&b| b == b'\n').unwrap() + 1;
                for i in 0..*looks {
                    let upto = (first_line + 2 + i * (enc.len() - first_line - 2) / looks.max(&1)).min(enc.len());
                    cx.op(&format!("read100 {}", hx(&enc[..upto])));
                    cx.op("keep100");
                }
                cx.op("proceed");
                if cx.rec.state() != "recvResponse" { continue; }
                for p in [0usize, 5, first_line, enc.len() - 2, enc.len() - 1] { cx.op(&format!("resp {}", hx(&enc[..p]))); }
                cx.op(&format!("resp {}", hx(&enc)));
                cx.op("canproceed");
              }
            }
        }
    }
    // the header limit: 128 accepted, 129 and more rejected, raised when the 129th complete line ends
    for extra in [127usize, 128, 129, 130] {
        let mut r = cx.case("limit");
        let mut h = gen_head(&mut r, 2, false);
        h.status = 200;
        h.fields = (0..extra).map(|k| Field { name: format!("x-{}", k).into_bytes(), pre: b" ".to_vec(), value: b"v".to_vec(), post: vec![] }).collect();
        let enc = h.enc();
        cx.meta(&h.meta());
        if !fresh_recv(cx) { continue; }
        let step = if cx.thorough { 1 } else { 7 };
        let mut p = enc.len().saturating_sub(40);
        while p < enc.len() {
            let res = cx.op(&format!("resp {}", hx(&enc[..p])));
            if res != "resp 0 none" && !fresh_recv(cx) { break; }
            p += step;
        }
        cx.op(&format!("resp {}", hx(&enc)));
    }
    // heads that are NOT redirects but carry a Location field (201 Created, 200, 404): every cut position
    for i in 0..(if cx.thorough { 60 } else { 12 }) {
        let mut r = cx.case("loc");
        let mut h = gen_head(&mut r, 2, false);
        h.status = *r.pick(&[200u16, 201, 202, 404, 299, 400, 503]);
        let loc = Field { name: (if i % 2 == 0 { "Location" } else { "LOCATION" }).as_bytes().to_vec(), pre: b" ".to_vec(), value: b"/created/7".to_vec(), post: vec![] };
        let pos = r.below(h.fields.len() + 1);
        h.fields.insert(pos, loc);
        let enc = h.enc();
        cx.meta(&h.meta());
        if !fresh_recv(cx) { continue; }
        for p in 0..enc.len() {
            let res = cx.op(&format!("resp {}", hx(&enc[..p])));
            if res != "resp 0 none" && !fresh_recv(cx) { break; }
        }
        cx.op(&format!("resp {}", hx(&enc)));
    }
    // a request that carried Expect: 100-continue, gave up waiting and sent its body: any head other than a
    // bare 100 — other 1xx included — is handed out like every other head
    for i in 0..(if cx.thorough { 60 } else { 15 }) {
        let mut r = cx.case("gaveup");
        let mut h = gen_head(&mut r, i % 3, false);
        h.status = [101u16, 102, 103, 199, 200, 204, 404][i % 7];
        let enc = h.enc();
        cx.meta(&h.meta());
        let gaveup = |cx: &mut Ctx| -> bool {
            cx.rec.new_flow(&format!("POST HTTP/1.1 http://a.test/p 2 expect {} content-length 31", hx(b"100-continue")));
            cx.op("proceed"); cx.op("write 4096"); cx.op("proceed");
            if cx.rec.state() != "await100" { return false; }
            cx.op("proceed");
            cx.op("bwrite 78 16");
            cx.op("proceed");
            cx.rec.state() == "recvResponse"
        };
        if !gaveup(cx) { continue; }
        for p in prefix_lengths(&mut r, enc.len()) {
            let res = cx.op(&format!("resp {}", hx(&enc[..p])));
            if res != "resp 0 none" && !gaveup(cx) { break; }
        }
        let mut full = enc.clone();
        if i % 2 == 0 { full.extend_from_slice(tail); }
        cx.op(&format!("resp {}", hx(&full)));
        cx.op("canproceed");
    }
    // a complete head in front of a large read buffer (64 KiB + 1, 128 KiB, 300 KiB of what follows), and a head
    // that is itself large (128 fields of 1000 bytes): only the head is consumed, whatever the buffer holds
    for (i, tl) in [65537usize, 102401, 131072, 300000, 0].iter().enumerate() {
        let mut r = cx.case("bigbuf");
        let mut h = gen_head(&mut r, if *tl == 0 { 0 } else { 2 }, false);
        h.status = [200u16, 404, 200, 201, 200][i];
        if *tl == 0 {
            h.fields = (0..128).map(|k| Field { name: format!("x-{}", k).into_bytes(), pre: b" ".to_vec(), value: vec![b'a' + (k % 26) as u8; 1000], post: vec![] }).collect();
        }
        let enc = h.enc();
        cx.meta(&h.meta());
        if !fresh_recv(cx) { continue; }
        if *tl == 0 {
            for p in [enc.len() - 1, 102400, 102401, 110000] {
                let res = cx.op(&format!("resp {}", hx(&enc[..p.min(enc.len() - 1)])));
                if res != "resp 0 none" && !fresh_recv(cx) { break; }
            }
        }
        let mut full = enc.clone();
        full.extend((0..*tl).map(|k| b"HTTP/1.1 200 OK\r\n\r\nxyz"[k % 22]));
        cx.op(&format!("resp {}", hx(&full)));
        cx.op("canproceed");
    }
    // a request without a body that carried Expect: 100-continue all the same: interim heads other than 100 are
    // handed on as for any other request in RecvResponse (what happens to a 100 there is C11's)
    for i in 0..(if cx.thorough { 40 } else { 10 }) {
        let mut r = cx.case("getexp");
        let mut h = gen_head(&mut r, i % 3, false);
        h.status = [101u16, 102, 103, 199, 200, 204, 404][i % 7];
        let enc = h.enc();
        cx.meta(&h.meta());
        let start = |cx: &mut Ctx| -> bool {
            cx.rec.new_flow(&format!("GET HTTP/1.1 http://a.test/p 1 expect {}", hx(b"100-continue")));
            cx.op("proceed"); cx.op("write 4096"); cx.op("proceed");
            cx.rec.state() == "recvResponse"
        };
        if !start(cx) { continue; }
        for p in prefix_lengths(&mut r, enc.len()) {
            let res = cx.op(&format!("resp {}", hx(&enc[..p])));
            if res != "resp 0 none" && !start(cx) { break; }
        }
        let mut full = enc.clone();
        if i % 2 == 0 { full.extend_from_slice(tail); }
        cx.op(&format!("resp {}", hx(&full)));
        cx.op("canproceed");
    }
    // every 3xx head cut at every position after its Location line (known finding D10 lives here)
    for i in 0..(if cx.thorough { 120 } else { 24 }) {
        let mut r = cx.case("redir");
        let mut h = gen_head(&mut r, 3, false);
        h.status = *r.pick(&[301u16, 302, 303, 307, 308]);
        let loc = Field { name: (if i % 2 == 0 { "Location" } else { "location" }).as_bytes().to_vec(), pre: b" ".to_vec(), value: b"/next".to_vec(), post: vec![] };
        let pos = r.below(h.fields.len() + 1);
        h.fields.insert(pos, loc);
        let enc = h.enc();
        cx.meta(&h.meta());
        if !fresh_recv(cx) { continue; }
        for p in 0..enc.len() {
            let res = cx.op(&format!("resp {}", hx(&enc[..p])));
            if res != "resp 0 none" && !fresh_recv(cx) { break; }
        }
        cx.op(&format!("resp {}", hx(&enc)));
    }
    // the size ladder over every length of a response head: reason phrase, field value, field name, what follows
    let qmax = super::ladder_q(cx.thorough).last().copied().unwrap_or(0);
    for l in super::ladder(cx.thorough, 131072) {
        for dim in 0..4 {
            let mut r = cx.case("ladder");
            let fill: Vec<u8> = (0..l).map(|i| b'a' + (i % 26) as u8).collect();
            let mut h = gen_head(&mut r, 1, false);
            h.status = if l % 2 == 0 { 200 } else { 404 };
            let mut tail_len = 0usize;
            if (dim == 1 || dim == 2) && l > qmax { continue; }
            match dim {
                0 => { h.reason = Some(fill.clone()); }
                1 => { h.fields.push(Field { name: b"x-l".to_vec(), pre: b" ".to_vec(), value: fill.clone(), post: vec![] }); h.fields.push(Field { name: b"x-z".to_vec(), pre: vec![], value: b"1".to_vec(), post: vec![] }); }
                2 => { if l == 0 || l > 32768 { continue; } h.fields.insert(0, Field { name: fill.clone(), pre: b" ".to_vec(), value: b"v".to_vec(), post: vec![] }); }
                _ => { tail_len = l; }
            }
            let enc = h.enc();
            cx.meta(&h.meta());
            if !fresh_recv(cx) { continue; }
            if dim != 3 {
                for p in [enc.len() / 2, enc.len() - 3, enc.len() - 1] {
                    let res = cx.op(&format!("resp {}", hx(&enc[..p.min(enc.len() - 1)])));
                    if res != "resp 0 none" && !fresh_recv(cx) { break; }
                }
            }
            let mut full = enc.clone();
            full.extend((0..tail_len).map(|k| tail[k % tail.len()]));
            cx.op(&format!("resp {}", hx(&full)));
            cx.op("canproceed");
        }
    }
    // the single-call API used as a decoder: into_receive() straight away, never having written the request
    // (accepted for a call without body), whatever the request looks like; then a head at every prefix
    for (ri, req) in ["GET HTTP/1.1 http://a.test/p 0", "POST HTTP/1.1 http://a.test/p 0", "PUT HTTP/1.0 http://a.test/p 0", "GET HTTP/1.1 http://a.test/p 1 content-length 35",
                      "GET HTTP/1.1 http://a.test/p 2 host 61 host 62", "HEAD HTTP/1.1 http://a.test/p 0"].iter().enumerate() {
        let mut r = cx.case("unwritten");
        let mut h = gen_head(&mut r, 2, false);
        h.status = [200u16, 404, 201, 500, 200, 200][ri];
        let enc = h.enc();
        cx.meta(&h.meta());
        let start = |cx: &mut Ctx| -> bool { cx.rec.new_call("nobody", req) == "ok" && cx.op("cinto") == "state callRecvResponse" };
        if !start(cx) { continue; }
        for p in [0usize, 1, 9, enc.len() / 2, enc.len() - 1] {
            let res = cx.op(&format!("cresp {}", hx(&enc[..p.min(enc.len() - 1)])));
            if res != "resp 0 none" && !start(cx) { break; }
        }
        let mut full = enc.clone();
        full.extend_from_slice(tail);
        cx.op(&format!("cresp {}", hx(&full)));
        cx.op("cfinished");
    }
}

const CLS: [&str; 10] = ["", "0", "7", "18446744073709551615", "18446744073709551616", "+5", "-5", "5 ", "abc", "\u{e9}"];
const TES: [&str; 9] = ["", "chunked", "Chunked", "gzip, chunked", "chunked, gzip", "gzip", " chunked ", "\u{e9}", "chunkedx"];

/// drive a flow of `method` to RecvResponse (sending an empty body where the method takes one)
pub fn to_recv_response_any(cx: &mut Ctx, method: &str) -> bool {
    let needs_body = matches!(method, "POST" | "PUT" | "PATCH");
    if needs_body {
        cx.rec.new_flow(&format!("{} HTTP/1.1 http://a.test/p 1 content-length 30", method));
    } else {
        cx.rec.new_flow(&format!("{} HTTP/1.1 http://a.test/p 0", method));
    }
    cx.op("proceed");
    cx.op("write 4096");
    cx.op("proceed");
    if needs_body {
        cx.op("bwrite - 16");
        cx.op("proceed");
    }
    cx.rec.state() == "recvResponse"
}

pub fn c06(cx: &mut Ctx) {
    let special: [u16; 22] = [100, 101, 150, 199, 200, 201, 204, 205, 299, 300, 301, 302, 303, 304, 305, 307, 308, 399, 400, 404, 500, 999];
    let mut r0 = Rng::for_case(cx.seed, 424242);
    for m in super::flowgen::METHODS {
        for status in 100u16..=999 {
            let is_special = special.contains(&status);
            if !is_special && !cx.thorough && r0.below(40) != 0 { continue; }
            for ver in [0u8, 1] {
                for (ci, cl) in CLS.iter().enumerate() {
                    for (ti, te) in TES.iter().enumerate() {
                        // quick: the full CL x TE product only for the special statuses with GET/HEAD/CONNECT/POST; otherwise a diagonal
                        let full = is_special && (cx.thorough || matches!(m, "GET" | "HEAD" | "CONNECT" | "POST"));
                        if !full && (ci + ti + status as usize) % 7 != 0 { continue; }
                        if status == 100 && ti + ci > 0 && !cx.thorough && (ci + ti) % 3 != 0 { continue; }
                        cx.case("frm");
                        if !to_recv_response_any(cx, m) { continue; }
                        let mut head = format!("HTTP/1.{} {} X\r\n", ver, status).into_bytes();
                        if !cl.is_empty() { head.extend_from_slice(b"Content-Length: "); head.extend(cl.chars().map(|c| c as u32 as u8)); head.extend_from_slice(b"\r\n"); }
                        if !te.is_empty() { head.extend_from_slice(b"Transfer-Encoding: "); head.extend(te.chars().map(|c| c as u32 as u8)); head.extend_from_slice(b"\r\n"); }
                        head.extend_from_slice(b"\r\n");
                        cx.op(&format!("resp {}", hx(&head)));
                        cx.op("canproceed");
                        cx.op("proceed");
                        if cx.rec.state() == "recvBody" { cx.op("mode"); }
                    }
                }
            }
        }
    }
    // the response whose framing is decided is the refusal of an Expect: 100-continue request, seen while
    // awaiting (with fields / bare) or after the caller gave up and sent the body
    for status in [200u16, 204, 302, 304, 403, 413] {
        for fr in ["Content-Length: 9\r\n", "Transfer-Encoding: chunked\r\n", "", "Content-Length: 0\r\n", "Content-Length: 9\r\nTransfer-Encoding: chunked\r\n"] {
            for ver in [0u8, 1] {
                for route in 0..4 {
                    cx.case("refused");
                    // route 3: everything else that closes a connection is there as well (HTTP/1.0 request,
                    // Connection: close on both sides)
                    if route == 3 {
                        cx.rec.new_flow(&format!("POST HTTP/1.0 http://a.test/p {}", super::hdrs(&[("connection", b"close"), ("expect", b"100-continue"), ("content-length", b"3")])));
                        cx.op("proceed"); cx.op("write 4096"); cx.op("proceed");
                        if cx.rec.state() != "await100" { continue; }
                    } else if !to_await100(cx, "POST", "HTTP/1.1", Some(3)) { continue; }
                    let head = format!("HTTP/1.{} {} X\r\n{}{}{}\r\n", ver, status, if status == 302 { "Location: /n\r\n" } else { "" }, fr, if route == 3 { "Connection: close\r\n" } else { "" }).into_bytes();
                    // route 0: whole head seen while awaiting; 1: only its status line and the start of a field;
                    // 2: never looked at while awaiting (gave up)
                    if route == 0 || route == 3 { cx.op(&format!("read100 {}", hx(&head))); }
                    if route == 1 { cx.op(&format!("read100 {}", hx(&head[..(head.len() - 3).min(22)]))); }
                    cx.op("keep100");
                    cx.op("proceed");
                    if cx.rec.state() == "sendBody" { cx.op("bwrite 616263 100"); cx.op("canproceed"); cx.op("proceed"); }
                    if cx.rec.state() != "recvResponse" { continue; }
                    cx.op(&format!("resp {}", hx(&head)));
                    cx.op("canproceed");
                    cx.op("proceed");
                    if cx.rec.state() == "recvBody" { cx.op("mode"); }
                }
            }
        }
    }
    // several framing fields, both orders; the first value of each name decides
    for (a, b) in [("Content-Length: 3\r\nContent-Length: 4\r\n", 0), ("Transfer-Encoding: gzip\r\nTransfer-Encoding: chunked\r\n", 1), ("Transfer-Encoding: chunked\r\nContent-Length: 0\r\n", 2), ("Content-Length: 0\r\nTransfer-Encoding: chunked\r\n", 3), ("content-length: 0\r\ntransfer-encoding: gzip, Chunked\r\n", 4)] {
        for status in [200u16, 302, 204] {
            for ver in [0u8, 1] {
                let _ = b;
                cx.case("multi");
                if !to_recv_response_any(cx, "GET") { continue; }
                let head = format!("HTTP/1.{} {} X\r\n{}\r\n", ver, status, a).into_bytes();
                cx.op(&format!("resp {}", hx(&head)));
                cx.op("canproceed");
                cx.op("proceed");
                if cx.rec.state() == "recvBody" { cx.op("mode"); }
            }
        }
    }
    // long coding lists: the deciding token sits beyond byte 64 / 128 / 300 of the value
    {
        let nine = "gzip, deflate, compress, x-gzip, x-compress, identity, br, zstd, chunked".to_string();
        let padded = format!("gzip,{}chunked", " ".repeat(57));
        let tabbed = format!("gzip,{}Chunked", "\t ".repeat(70));
        let many = format!("{}chunked", "identity, ".repeat(40));
        let nochunk = format!("{}gzip", "identity, ".repeat(40));
        let first = format!("chunked, {}", "gzip, ".repeat(30)) + "gzip";
        for te in [&nine, &padded, &tabbed, &many, &nochunk, &first] {
            for (status, ver, extra) in [(200u16, 1u8, ""), (404, 1, "Content-Length: 5\r\n"), (200, 0, ""), (302, 1, "Location: /n\r\n")] {
                cx.case("longte");
                if !to_recv_response_any(cx, "GET") { continue; }
                let head = format!("HTTP/1.{} {} X\r\n{}Transfer-Encoding: {}\r\n\r\n", ver, status, extra, te).into_bytes();
                cx.op(&format!("resp {}", hx(&head)));
                cx.op("canproceed");
                cx.op("proceed");
                if cx.rec.state() == "recvBody" { cx.op("mode"); cx.op(&format!("bread {} 16", hx(b"3\r\nabc\r\n0\r\n\r\n"))); cx.op("canproceed"); }
            }
        }
    }
    // other fields around the framing fields — empty-valued, whitespace-only, unusual names — change nothing
    for before in ["X-Empty:\r\n", "Server: \r\n", "X-A: 1\r\nX-Trace:   \r\n", "x-b:\t\r\n"] {
        for (fi, framing) in ["Content-Length: 5\r\n", "Transfer-Encoding: chunked\r\n", "Content-Length: 0\r\n", "Content-Length: abc\r\n", "CONTENT-LENGTH: 7\r\n", "transfer-ENCODING: Chunked\r\n"].iter().enumerate() {
            for status in [200u16, 302, 404] {
                for after in ["", "X-Z:\r\n"] {
                    let _ = fi;
                    cx.case("around");
                    if !to_recv_response_any(cx, "GET") { continue; }
                    let head = format!("HTTP/1.1 {} X\r\n{}{}{}\r\n", status, before, framing, after).into_bytes();
                    cx.op(&format!("resp {}", hx(&head)));
                    cx.op("canproceed");
                    cx.op("proceed");
                    if cx.rec.state() == "recvBody" { cx.op("mode"); }
                }
            }
        }
    }
    // the remaining length the body state reports follows what was delivered, not what was offered
    for (status, n) in [(200u16, 10usize), (302, 6), (404, 3)] {
        for cap in [0usize, 1, 4, 100] {
            cx.case("readmode");
            if !to_recv_response_any(cx, "GET") { continue; }
            let head = format!("HTTP/1.1 {} X\r\nLocation: /n\r\nContent-Length: {}\r\n\r\n", status, n).into_bytes();
            cx.op(&format!("resp {}", hx(&head)));
            cx.op("proceed");
            if cx.rec.state() != "recvBody" { continue; }
            cx.op("mode");
            let body: Vec<u8> = (0..n + 5).map(|i| b'a' + (i % 26) as u8).collect();
            let mut off = 0usize;
            for _ in 0..4 {
                let res = cx.op(&format!("bread {} {}", hx(&body[off..]), cap));
                let p: Vec<&str> = res.split(' ').collect();
                if p[0] != "bytes" { break; }
                off += p[1].parse::<usize>().unwrap_or(0);
                cx.op("mode");
                cx.op("canproceed");
            }
            cx.op("proceed");
        }
    }
    // two heads on the same flow: an informational response other than 100 is handed to the caller (it has
    // no body); the final response that follows must get its own framing decision
    for interim in ["HTTP/1.1 103 Early Hints\r\nLink: </x>\r\n\r\n", "HTTP/1.1 102 Processing\r\n\r\n", "HTTP/1.1 100 Continue\r\n\r\n"] {
        for fin in ["HTTP/1.1 200 OK\r\nContent-Length: 5\r\n\r\n", "HTTP/1.1 200 OK\r\nTransfer-Encoding: chunked\r\n\r\n", "HTTP/1.1 200 OK\r\n\r\n", "HTTP/1.1 200 OK\r\nContent-Length: x\r\n\r\n", "HTTP/1.1 204 No\r\n\r\n"] {
            for m in ["GET", "HEAD"] {
                cx.case("twice");
                if !to_recv_response_any(cx, m) { continue; }
                cx.op(&format!("resp {}", hx(interim.as_bytes())));
                cx.op("canproceed");
                cx.op(&format!("resp {}", hx(fin.as_bytes())));
                cx.op("canproceed");
                cx.op("proceed");
                if cx.rec.state() == "recvBody" { cx.op("mode"); }
            }
        }
    }
    // request version differs from the response version
    for reqv in ["HTTP/1.0", "HTTP/1.1"] {
        for ver in [0u8, 1] {
            for te in ["chunked", ""] {
                for cl in ["5", ""] {
                    cx.case("ver");
                    cx.rec.new_flow(&format!("GET {} http://a.test/p 0", reqv));
                    cx.op("proceed"); cx.op("write 4096"); cx.op("proceed");
                    let mut head = format!("HTTP/1.{} 200 OK\r\n", ver);
                    if !te.is_empty() { head.push_str(&format!("Transfer-Encoding: {}\r\n", te)); }
                    if !cl.is_empty() { head.push_str(&format!("Content-Length: {}\r\n", cl)); }
                    head.push_str("\r\n");
                    cx.op(&format!("resp {}", hx(head.as_bytes())));
                    cx.op("proceed");
                    if cx.rec.state() == "recvBody" { cx.op("mode"); }
                }
            }
        }
    }
    // the size ladder: optional whitespace and further codings in front of the deciding token, a Content-Length
    // with leading zeros, other fields in front of the framing field
    for l in super::ladder_q(cx.thorough) {
        let pad = " ".repeat(l);
        let codings = "identity, ".repeat(l / 10);
        let zeros = "0".repeat(l);
        let filler: String = (0..l.min(120)).map(|k| format!("X-F{}: v\r\n", k)).collect();
        let heads = [format!("Transfer-Encoding: gzip,{}chunked\r\n", pad), format!("Transfer-Encoding: {}chunked\r\n", codings), format!("Transfer-Encoding:{}chunked{}\r\n", pad, pad),
                     format!("Content-Length: {}5\r\n", zeros), format!("Content-Length:{}5{}\r\n", pad, pad), format!("{}Transfer-Encoding: chunked\r\n", filler), format!("X-Pad: {}\r\nContent-Length: 5\r\n", pad)];
        for (hi, fh) in heads.iter().enumerate() {
            cx.case("ladder");
            let _ = hi;
            if !to_recv_response_any(cx, "GET") { continue; }
            let head = format!("HTTP/1.1 200 X\r\n{}\r\n", fh).into_bytes();
            cx.op(&format!("resp {}", hx(&head)));
            cx.op("canproceed");
            cx.op("proceed");
            if cx.rec.state() == "recvBody" { cx.op("mode"); }
        }
    }
}

fn to_await100(cx: &mut Ctx, method: &str, version: &str, cl: Option<u32>) -> bool {
    let h = match cl {
        Some(n) => format!("2 expect {} content-length {}", hx(b"100-continue"), hx(n.to_string().as_bytes())),
        None => format!("1 expect {}", hx(b"100-continue")),
    };
    cx.rec.new_flow(&format!("{} {} http://a.test/p {}", method, version, h));
    cx.op("proceed");
    cx.op("write 4096");
    cx.op("proceed");
    cx.rec.state() == "await100"
}

/// finish the exchange from wherever the flow is, offering `stream` from `soff`
fn finish_exchange(cx: &mut Ctx, stream: &[u8], mut soff: usize, body_len: usize) {
    for _ in 0..40 {
        match cx.rec.state() {
            "sendBody" => {
                let chunked = cx.op("chunked?") == "bool true";
                if !chunked && body_len > 0 { cx.op(&format!("bwrite {} 100", hx(&vec![b'x'; body_len]))); }
                else if chunked { cx.op("bwrite 6162 100"); cx.op("bwrite - 100"); }
                else { cx.op("bwrite - 100"); }
                cx.op("canproceed");
                cx.op("proceed");
            }
            "recvResponse" => {
                let res = cx.op(&format!("resp {}", hx(&stream[soff.min(stream.len())..])));
                let p: Vec<&str> = res.split(' ').collect();
                if p[0] != "resp" { return; }
                soff += p[1].parse::<usize>().unwrap_or(0);
                if p[2] != "none" { cx.op("canproceed"); cx.op("proceed"); }
                else if p[1] == "0" { return; }
            }
            "recvBody" => {
                let res = cx.op(&format!("bread {} 1000", hx(&stream[soff.min(stream.len())..])));
                let p: Vec<&str> = res.split(' ').collect();
                if p[0] != "bytes" { return; }
                soff += p[1].parse::<usize>().unwrap_or(0);
                let can = cx.op("canproceed");
                if can == "bool true" { cx.op("proceed"); } else { return; }
            }
            "redirect" => { cx.op("close?"); cx.op("proceed"); }
            "cleanup" => { cx.op("close?"); cx.op("reason"); return; }
            _ => return,
        }
    }
}

pub fn c11(cx: &mut Ctx) {
    // a caller whose waiting loop only tests the returned count keeps looking after the verdict (a refusal
    // returns 0 like "not enough data"): the refusal re-presented 2 … 9 times while its head trickles in
    for head in ["HTTP/1.1 403 Forbidden\r\nContent-Length: 0\r\nX-A: 1\r\nX-B: 2\r\n\r\n", "HTTP/1.0 417 E\r\nConnection: close\r\n\r\n"] {
        for reqv in ["HTTP/1.1", "HTTP/1.0"] {
            for creq in [false, true] {
                for times in [2usize, 4, 6, 9] {
                    cx.case("polls");
                    let mut hs: Vec<(&str, &[u8])> = vec![("expect", b"100-continue"), ("content-length", b"3")];
                    if creq { hs.insert(0, ("connection", b"close")); }
                    cx.rec.new_flow(&format!("POST {} http://a.test/p {}", reqv, super::hdrs(&hs)));
                    cx.op("proceed"); cx.op("write 4096"); cx.op("proceed");
                    if cx.rec.state() != "await100" { continue; }
                    let hb = head.as_bytes();
                    let first_line = hb.iter().position(|&b| b == b'\n').unwrap() + 1;
                    for i in 0..times {
                        let upto = (first_line + 3 + i * (hb.len() - first_line - 3) / times).min(hb.len());
                        cx.op(&format!("read100 {}", hx(&hb[..upto])));
                        cx.op("keep100");
                    }
                    cx.op("proceed");
                    finish_exchange(cx, hb, 0, 3);
                }
            }
        }
    }
    let reasons: [&str; 5] = [" Continue", "", " ", " Go\tOn \u{e9}", " continue please"];
    // the last three: informational statuses other than 100 are refusals too (and have no body)
    let finals: [&str; 9] = ["HTTP/1.1 403 Forbidden\r\n\r\n", "HTTP/1.1 403 Forbidden\r\nContent-Length: 0\r\n\r\n", "HTTP/1.1 200 OK\r\nContent-Length: 2\r\n\r\nhi", "HTTP/1.0 417 Expectation Failed\r\nX: y\r\nContent-Length: 0\r\n\r\n", "HTTP/1.1 302 Found\r\nLocation: /x\r\nContent-Length: 0\r\n\r\n", "HTTP/1.1 204\r\n\r\n",
        "HTTP/1.1 101 Switching Protocols\r\n\r\n", "HTTP/1.1 103 Early Hints\r\nLink: </x>\r\n\r\n", "HTTP/1.1 199\r\n\r\n"];
    // (1) interim 100 at every prefix at which the caller looks, then either path
    for (ri, reason) in reasons.iter().enumerate() {
        for reqv in ["HTTP/1.1", "HTTP/1.0"] {
            let interim = format!("HTTP/1.1 100{}\r\n\r\n", reason).chars().map(|c| c as u32 as u8).collect::<Vec<u8>>();
            for fin in [finals[2], finals[1]] {
                let mut stream = interim.clone();
                stream.extend_from_slice(fin.as_bytes());
                let step = if cx.thorough || ri == 0 { 1 } else { 3 };
                let mut p = 0;
                while p <= interim.len() + 3 {
                    for giveup in [false, true] {
                        cx.case("i100");
                        cx.meta(&format!("interim {} look {} giveup {}", interim.len(), p, giveup));
                        let method = if reqv == "HTTP/1.0" { "POST" } else { *["POST", "PUT", "PATCH"].get(p % 3).unwrap() };
                        if !to_await100(cx, method, reqv, Some(5)) { continue; }
                        cx.op("keep100");
                        let res = cx.op(&format!("read100 {}", hx(&stream[..p.min(stream.len())])));
                        let mut soff = 0;
                        if let Some(n) = res.strip_prefix("count ") { soff = n.parse().unwrap_or(0); }
                        cx.op("keep100");
                        if !giveup && soff == 0 && p < stream.len() {
                            // look again with everything
                            let res = cx.op(&format!("read100 {}", hx(&stream)));
                            if let Some(n) = res.strip_prefix("count ") { soff = n.parse().unwrap_or(0); }
                            cx.op("keep100");
                        }
                        cx.op("proceed");
                        finish_exchange(cx, &stream, soff, 5);
                    }
                    p += step;
                }
            }
        }
    }
    // (2) any other response while awaiting 100: with and without fields, at every prefix
    for fin in finals {
        let stream = fin.as_bytes().to_vec();
        let head_end = fin.find("\r\n\r\n").unwrap() + 4;
        for p in 0..=head_end {
            for second_look in [false, true] {
                cx.case("refuse");
                cx.meta(&format!("final look {}", p));
                if !to_await100(cx, "POST", "HTTP/1.1", if p % 2 == 0 { Some(5) } else { None }) { continue; }
                cx.op(&format!("read100 {}", hx(&stream[..p])));
                cx.op("keep100");
                if second_look && cx.op("keep100") == "bool true" {
                    cx.op(&format!("read100 {}", hx(&stream)));
                    cx.op("keep100");
                }
                cx.op("proceed");
                finish_exchange(cx, &stream, 0, 5);
            }
        }
    }
    // (2b) the same with bare-LF line ends, and status lines far longer than any buffer a caller is likely to use
    // (a 9000-byte reason phrase), looked at through prefixes shorter and longer than 8 KiB
    {
        let long100 = format!("HTTP/1.1 100 {}\r\n\r\n", "c".repeat(9000));
        let long403 = format!("HTTP/1.1 403 {}\r\nContent-Length: 0\r\n\r\n", "n".repeat(9000));
        let longfield = format!("HTTP/1.1 100 Continue\r\nX-Pad: {}\r\n\r\n", "p".repeat(9000));
        let items: Vec<(String, Vec<usize>)> = vec![
            ("HTTP/1.1 100 Continue\n\n".to_string(), vec![5, 22, 23, 24]),
            ("HTTP/1.1 403 Forbidden\n\n".to_string(), vec![5, 23, 24]),
            ("HTTP/1.1 417 No\nContent-Length: 0\n\n".to_string(), vec![16, 30, 34, 35]),
            (long100.clone(), vec![100, 8192, 8193, 9000, long100.len() - 2, long100.len()]),
            (long403.clone(), vec![8192, 8193, 9012, long403.len() - 2, long403.len()]),
            (longfield.clone(), vec![8193, 9000, longfield.len() - 1, longfield.len()]),
        ];
        for (ans, looks) in &items {
            for &p in looks {
                for then in 0..3 {
                    cx.case("lfbig");
                    cx.meta(&format!("final look {}", p));
                    let mut stream = ans.as_bytes().to_vec();
                    let is100 = ans.starts_with("HTTP/1.1 100");
                    if is100 { stream.extend_from_slice(finals[2].as_bytes()); }
                    if !to_await100(cx, "POST", "HTTP/1.1", Some(5)) { continue; }
                    let res = cx.op(&format!("read100 {}", hx(&stream[..p.min(stream.len())])));
                    let mut soff = 0;
                    if let Some(n) = res.strip_prefix("count ") { soff = n.parse().unwrap_or(0); }
                    cx.op("keep100");
                    if then >= 1 && soff == 0 && cx.op("keep100") == "bool true" {
                        let res = cx.op(&format!("read100 {}", hx(&stream[..if then == 1 { ans.len() } else { stream.len() }])));
                        if let Some(n) = res.strip_prefix("count ") { soff = n.parse().unwrap_or(0); }
                        cx.op("keep100");
                    }
                    cx.op("proceed");
                    finish_exchange(cx, &stream, soff, 5);
                }
            }
        }
    }
    // (3) the late 100: give up at once, send the body, then 100(s) before the real response
    for n100 in 0..=2usize {
        for fin in [finals[2], finals[0], finals[4]] {
            for split in [false, true] {
                for reqv in ["HTTP/1.1", "HTTP/1.0"] {
                    cx.case("late");
                    let mut stream = Vec::new();
                    for _ in 0..n100 { stream.extend_from_slice(b"HTTP/1.1 100 Continue\r\n\r\n"); }
                    stream.extend_from_slice(fin.as_bytes());
                    cx.meta(&format!("late n100={}", n100));
                    if !to_await100(cx, "POST", reqv, Some(5)) { continue; }
                    cx.op("proceed");
                    if cx.rec.state() != "sendBody" { continue; }
                    cx.op(&format!("bwrite {} 100", hx(b"hello")));
                    cx.op("proceed");
                    if split {
                        // one byte at a time through the interim responses
                        let mut soff = 0;
                        let mut upto = 1;
                        let mut guard = 0;
                        while cx.rec.state() == "recvResponse" && guard < 400 {
                            guard += 1;
                            let res = cx.op(&format!("resp {}", hx(&stream[soff..upto.min(stream.len())])));
                            let p: Vec<&str> = res.split(' ').collect();
                            if p[0] != "resp" { break; }
                            soff += p[1].parse::<usize>().unwrap_or(0);
                            if p[2] != "none" { cx.op("proceed"); break; }
                            if upto >= stream.len() && p[1] == "0" { break; }
                            upto = (upto + 1).max(soff + 1);
                        }
                        finish_exchange(cx, &stream, soff, 5);
                    } else {
                        finish_exchange(cx, &stream, 0, 5);
                    }
                }
            }
        }
    }
    // (7) refused while every other close condition holds too (HTTP/1.0, Connection: close both ways, no length):
    // the flow that results is usable to completion
    for hd in ["HTTP/1.1 403 No\r\nConnection: close\r\n\r\n", "HTTP/1.0 417 E\r\nconnection: close\r\nX: y\r\n\r\n"] {
        for reqv in ["HTTP/1.0", "HTTP/1.1"] {
            cx.case("allclose");
            cx.rec.new_flow(&format!("POST {} http://a.test/p {}", reqv, super::hdrs(&[("connection", b"close"), ("expect", b"100-continue"), ("content-length", b"2")])));
            cx.op("proceed"); cx.op("write 4096"); cx.op("proceed");
            let mut stream = hd.as_bytes().to_vec();
            stream.extend_from_slice(b"the body until close");
            let mut soff = 0;
            if cx.rec.state() == "await100" {
                let res = cx.op(&format!("read100 {}", hx(&stream)));
                if let Some(n) = res.strip_prefix("count ") { soff = n.parse().unwrap_or(0); }
                cx.op("keep100");
                cx.op("proceed");
            }
            finish_exchange(cx, &stream, soff, 2);
        }
    }
    // (6) Expect is list-valued: 100-continue among several Expect lines, in any position
    for hs in [vec![("expect", &b"x-quota=strict"[..]), ("expect", &b"100-continue"[..])],
               vec![("expect", &b"100-continue"[..]), ("expect", &b"x-quota=strict"[..])],
               vec![("expect", &b"a=1"[..]), ("x-a", &b"1"[..]), ("expect", &b"b=2"[..]), ("expect", &b"100-continue"[..])]] {
        for reqv in ["HTTP/1.1", "HTTP/1.0"] {
            for path in 0..3 {
                cx.case("multiexp");
                let mut all = hs.clone();
                all.push(("content-length", b"2"));
                cx.rec.new_flow(&format!("POST {} http://a.test/p {}", reqv, super::hdrs(&all)));
                cx.op("proceed"); cx.op("write 4096"); cx.op("proceed");
                let stream: Vec<u8> = match path {
                    1 => b"HTTP/1.1 403 Forbidden\r\nContent-Length: 0\r\n\r\n".to_vec(),
                    _ => b"HTTP/1.1 100 Continue\r\n\r\nHTTP/1.1 200 OK\r\nContent-Length: 2\r\n\r\nhi".to_vec(),
                };
                let mut soff = 0;
                if cx.rec.state() == "await100" {
                    cx.op("keep100");
                    if path < 2 {
                        let res = cx.op(&format!("read100 {}", hx(&stream)));
                        if let Some(n) = res.strip_prefix("count ") { soff = n.parse().unwrap_or(0); }
                        cx.op("keep100");
                    }
                    cx.op("proceed");
                }
                finish_exchange(cx, &stream, soff, 2);
            }
        }
    }
    // (5) a method without a body of its own, made to carry one: Expect applies all the same
    for m in ["GET", "DELETE", "OPTIONS"] {
        for reqv in ["HTTP/1.1", "HTTP/1.0"] {
            if reqv == "HTTP/1.0" && m != "GET" { continue; }
            for path in 0..3 {
                cx.case("despite");
                cx.rec.new_flow(&format!("{} {} http://a.test/p 1 expect {}", m, reqv, hx(b"100-continue")));
                cx.op("despite");
                cx.op("proceed"); cx.op("write 4096"); cx.op("proceed");
                let stream: Vec<u8> = match path {
                    0 => b"HTTP/1.1 100 Continue\r\n\r\nHTTP/1.1 200 OK\r\nContent-Length: 2\r\n\r\nhi".to_vec(),
                    1 => b"HTTP/1.1 403 Forbidden\r\nContent-Length: 0\r\n\r\n".to_vec(),
                    _ => b"HTTP/1.1 100 Continue\r\n\r\nHTTP/1.1 200 OK\r\nContent-Length: 2\r\n\r\nhi".to_vec(),
                };
                let mut soff = 0;
                if cx.rec.state() == "await100" {
                    cx.op("keep100");
                    if path < 2 {
                        let res = cx.op(&format!("read100 {}", hx(&stream)));
                        if let Some(n) = res.strip_prefix("count ") { soff = n.parse().unwrap_or(0); }
                        cx.op("keep100");
                    }
                    cx.op("proceed");
                }
                finish_exchange(cx, &stream, soff, 0);
            }
        }
    }
    // (4) 100 with header fields (treated as a refusal while awaiting, an error afterwards)
    for _ in 0..1 {
        cx.case("h100");
        let stream = b"HTTP/1.1 100 Continue\r\nX: y\r\n\r\nHTTP/1.1 200 OK\r\nContent-Length: 0\r\n\r\n".to_vec();
        if to_await100(cx, "POST", "HTTP/1.1", Some(5)) {
            cx.op(&format!("read100 {}", hx(&stream)));
            cx.op("keep100");
            cx.op("proceed");
            finish_exchange(cx, &stream, 0, 5);
        }
    }
    // the size ladder over the reason phrase and a field value of what the server sends while the client awaits
    // 100: looked at halfway, two bytes short, complete
    let qmax = super::ladder_q(cx.thorough).last().copied().unwrap_or(0);
    for l in super::ladder(cx.thorough, 65536) {
        let fill = "r".repeat(l);
        for (ai, ans) in [format!("HTTP/1.1 100 {}\r\n\r\n", fill), format!("HTTP/1.1 403 {}\r\n\r\n", fill), format!("HTTP/1.1 417 No\r\nX-Why: {}\r\nContent-Length: 0\r\n\r\n", fill), format!("HTTP/1.1 100 Continue\r\nX-Pad: {}\r\n\r\n", fill)].iter().enumerate() {
            if ai >= 2 && l > qmax { continue; }
            for look in [ans.len() / 2, ans.len() - 2, ans.len()] {
                cx.case("ladder");
                cx.meta(&format!("final look {}", look));
                let mut stream = ans.as_bytes().to_vec();
                if ai == 0 || ai == 3 { stream.extend_from_slice(finals[2].as_bytes()); }
                if !to_await100(cx, "POST", "HTTP/1.1", Some(5)) { continue; }
                let res = cx.op(&format!("read100 {}", hx(&stream[..look])));
                let mut soff = 0;
                if let Some(n) = res.strip_prefix("count ") { soff = n.parse().unwrap_or(0); }
                if soff == 0 && cx.op("keep100") == "bool true" {
                    let res = cx.op(&format!("read100 {}", hx(&stream[..ans.len()])));
                    if let Some(n) = res.strip_prefix("count ") { soff = n.parse().unwrap_or(0); }
                    cx.op("keep100");
                }
                cx.op("proceed");
                finish_exchange(cx, &stream, soff, 5);
            }
        }
    }
}

const REQ_METHODS: [&str; 8] = ["GET", "POST", "HEAD", "OPTIONS", "DELETE", "M-SEARCH", "X", "PROPFIND"];
const TARGETS: [&str; 6] = ["/", "/a/b?c=d", "*", "http://a.test/x", "/%7e", "/p\u{e9}"];

pub fn c20(cx: &mut Ctx) {
    let limits = [0usize, 1, 4, 128];
    let n = if cx.thorough { 400 } else { 48 };
    // responses
    for i in 0..n {
        let mut r = cx.case("resp");
        let lim = limits[i % 4];
        let nf = if lim == 128 { if i % 8 == 3 { *r.pick(&[127usize, 128, 129, 130]) } else { r.range(0, 6) } } else { r.below(lim + 3) };
        let mut h = gen_head(&mut r, 0, true);
        h.fields = (0..nf).map(|_| gen_field(&mut r)).collect();
        if i % 16 == 5 { h.status = 100; }
        let enc = h.enc();
        cx.meta(&h.meta());
        cx.meta(&format!("limit {}", lim));
        for p in prefix_lengths(&mut r, enc.len()) {
            cx.op(&format!("parse-resp {} {}", lim, hx(&enc[..p])));
            cx.op(&format!("parse-partial {} {}", lim, hx(&enc[..p])));
        }
        let mut full = enc.clone();
        if i % 2 == 0 { full.extend_from_slice(b"body bytes\r\n\r\n"); }
        cx.op(&format!("parse-resp {} {}", lim, hx(&full)));
        cx.op(&format!("parse-partial {} {}", lim, hx(&full)));
    }
    // heads made of the fields the rest of the crate looks at (framing, connection, location, expect), in both
    // versions and several spellings: the parsers report them like any other field
    {
        let names = ["Transfer-Encoding", "transfer-encoding", "Content-Length", "CONTENT-LENGTH", "Connection", "connection", "Location", "Expect", "Host", "Trailer", "TE", "Upgrade"];
        let values = ["chunked", "gzip, chunked", "0", "5", "close", "keep-alive", "/n", "100-continue", "a.test", ""];
        for i in 0..(if cx.thorough { 240 } else { 60 }) {
            let mut r = cx.case("known");
            let ver = (i % 2) as u8;
            let nf = 1 + i % 4;
            let fields: Vec<Field> = (0..nf).map(|j| Field { name: names[(i + 5 * j) % names.len()].as_bytes().to_vec(), pre: b" ".to_vec(), value: values[(i / 2 + 3 * j) % values.len()].as_bytes().to_vec(), post: vec![] }).collect();
            let h = Head { version: ver, status: *r.pick(&[200u16, 204, 302, 101, 417]), reason: Some(b"R".to_vec()), fields };
            let enc = h.enc();
            cx.meta(&h.meta());
            cx.meta("limit 128");
            for p in prefix_lengths(&mut r, enc.len()) {
                cx.op(&format!("parse-resp 128 {}", hx(&enc[..p])));
                cx.op(&format!("parse-partial 128 {}", hx(&enc[..p])));
            }
            cx.op(&format!("parse-resp 128 {}", hx(&enc)));
            cx.op(&format!("parse-partial 128 {}", hx(&enc)));
            // the same fields in a request head
            let mut renc = format!("{} /p HTTP/1.{}\r\n", if i % 3 == 0 { "POST" } else { "GET" }, ver).into_bytes();
            renc.extend_from_slice(&enc_fields(&h.fields));
            renc.extend_from_slice(b"\r\n");
            cx.case("knownreq");
            cx.meta(&format!("reqhead {} {} {} {}{}", hx(if i % 3 == 0 { b"POST" } else { b"GET" }), hx(b"/p"), ver, h.fields.len(), meta_fields(&h.fields)));
            cx.meta("limit 128");
            cx.op(&format!("parse-req 128 {}", hx(&renc[..renc.len() - 2])));
            cx.op(&format!("parse-req 128 {}", hx(&renc)));
        }
    }
    // requests
    for i in 0..n {
        let mut r = cx.case("req");
        let lim = limits[i % 4];
        let nf = if lim == 128 { if i % 8 == 3 { *r.pick(&[127usize, 128, 129, 130]) } else { r.range(0, 6) } } else { r.below(lim + 3) };
        let fields: Vec<Field> = (0..nf).map(|_| gen_field(&mut r)).collect();
        let method = *r.pick(&REQ_METHODS);
        let target: Vec<u8> = r.pick(&TARGETS).chars().map(|c| c as u32 as u8).collect();
        let ver = if r.chance(1, 4) { 0 } else { 1 };
        let mut enc = format!("{} ", method).into_bytes();
        enc.extend_from_slice(&target);
        enc.extend_from_slice(format!(" HTTP/1.{}\r\n", ver).as_bytes());
        enc.extend_from_slice(&enc_fields(&fields));
        enc.extend_from_slice(b"\r\n");
        cx.meta(&format!("reqhead {} {} {} {}{}", hx(method.as_bytes()), hx(&target), ver, fields.len(), meta_fields(&fields)));
        cx.meta(&format!("limit {}", lim));
        for p in prefix_lengths(&mut r, enc.len()) {
            cx.op(&format!("parse-req {} {}", lim, hx(&enc[..p])));
        }
        let mut full = enc.clone();
        if i % 2 == 0 { full.extend_from_slice(b"POST / HTTP/1.1\r\n"); }
        cx.op(&format!("parse-req {} {}", lim, hx(&full)));
    }
    // dense heads: the shortest legal field lines (`a:1`, `b:`), many of them, nothing after the head
    for (ci, count) in [3usize, 12, 13, 20, 64, 100, 127, 128, 129].iter().enumerate() {
        for empty_values in [false, true] {
            cx.case("dense");
            let mut fields: Vec<Field> = vec![];
            for k in 0..*count {
                let name = vec![b'a' + (k % 26) as u8];
                let value = if empty_values && k % 3 == 1 { vec![] } else { vec![b'0' + (k % 10) as u8] };
                fields.push(Field { name, pre: vec![], value, post: vec![] });
            }
            let h = Head { version: 1, status: 200, reason: Some(b"OK".to_vec()), fields: fields.clone() };
            let enc = h.enc();
            cx.meta(&h.meta());
            cx.meta("limit 128");
            let lim = 128;
            for p in [enc.len() - 1, enc.len() - 2, enc.len() / 2, 17 + 4 * (ci + 1)] {
                let p = p.min(enc.len());
                cx.op(&format!("parse-resp {} {}", lim, hx(&enc[..p])));
                cx.op(&format!("parse-partial {} {}", lim, hx(&enc[..p])));
            }
            cx.op(&format!("parse-resp {} {}", lim, hx(&enc)));
            cx.op(&format!("parse-partial {} {}", lim, hx(&enc)));
            let mut renc = b"GET / HTTP/1.1\r\n".to_vec();
            renc.extend_from_slice(&enc_fields(&fields));
            renc.extend_from_slice(b"\r\n");
            cx.meta(&format!("reqhead {} {} 1 {}{}", hx(b"GET"), hx(b"/"), fields.len(), meta_fields(&fields)));
            cx.op(&format!("parse-req {} {}", lim, hx(&renc[..renc.len() - 1])));
            cx.op(&format!("parse-req {} {}", lim, hx(&renc)));
        }
    }
    // malformed: short strings over a protocol alphabet
    let alpha: &[u8] = b"HTP/1.02 :\r\n\tG\x00\x80";
    let maxlen = if cx.thorough { 5 } else { 4 };
    let mut cur: Vec<usize> = vec![];
    cx.case("mal");
    let mut count = 0;
    loop {
        let s: Vec<u8> = cur.iter().map(|&i| alpha[i]).collect();
        cx.op(&format!("parse-resp 1 {}", hx(&s)));
        cx.op(&format!("parse-partial 1 {}", hx(&s)));
        cx.op(&format!("parse-req 1 {}", hx(&s)));
        count += 1;
        if count % 2000 == 0 { cx.case("mal"); }
        // next string
        let mut k = cur.len();
        loop {
            if k == 0 { cur = vec![0; cur.len() + 1]; break; }
            k -= 1;
            if cur[k] + 1 < alpha.len() { cur[k] += 1; for j in k + 1..cur.len() { cur[j] = 0; } break; }
        }
        if cur.len() > maxlen { break; }
    }
    // malformed continuations of valid prefixes
    let bases: [&[u8]; 4] = [b"HTTP/1.1 200 OK\r\n", b"HTTP/1.1 200 OK\r\nA: b\r\n", b"GET / HTTP/1.1\r\n", b"GET / HTTP/1.1\r\nA: b\r\n"];
    for base in bases {
        cx.case("malc");
        for a in alpha { for b in alpha { for c in [b'\r', b'\n', b':', b'x'] {
            let mut s = base.to_vec(); s.push(*a); s.push(*b); s.push(c);
            cx.op(&format!("parse-resp 4 {}", hx(&s)));
            cx.op(&format!("parse-partial 4 {}", hx(&s)));
            cx.op(&format!("parse-req 4 {}", hx(&s)));
        } } }
    }
    // the size ladder over the lengths inside a head: reason, field value, field name (responses), target, field
    // value (requests); the limit stays 128
    for l in super::ladder_q(cx.thorough) {
        let fill: Vec<u8> = (0..l).map(|i| b'a' + (i % 26) as u8).collect();
        for dim in 0..3 {
            if dim == 2 && l > 32768 { continue; }
            cx.case("ladder");
            let mut h = Head { version: 1, status: 200, reason: Some(b"OK".to_vec()), fields: vec![Field { name: b"a".to_vec(), pre: b" ".to_vec(), value: b"1".to_vec(), post: vec![] }] };
            match dim {
                0 => { h.reason = Some(fill.clone()); }
                1 => { h.fields.push(Field { name: b"x-l".to_vec(), pre: b" ".to_vec(), value: fill.clone(), post: vec![] }); }
                _ => { if l == 0 { continue; } h.fields.insert(0, Field { name: fill.clone(), pre: vec![], value: b"v".to_vec(), post: vec![] }); }
            }
            let enc = h.enc();
            cx.meta(&h.meta());
            cx.meta("limit 128");
            for p in [enc.len() / 2, enc.len() - 2, enc.len()] {
                cx.op(&format!("parse-resp 128 {}", hx(&enc[..p])));
                cx.op(&format!("parse-partial 128 {}", hx(&enc[..p])));
            }
            if dim == 0 { continue; }
            let fields = h.fields.clone();
            let mut target = b"/".to_vec();
            if dim == 1 { target.extend_from_slice(&fill); }
            let mut renc = b"GET ".to_vec();
            renc.extend_from_slice(&target);
            renc.extend_from_slice(b" HTTP/1.1\r\n");
            renc.extend_from_slice(&enc_fields(&fields));
            renc.extend_from_slice(b"\r\n");
            cx.meta(&format!("reqhead {} {} 1 {}{}", hx(b"GET"), hx(&target), fields.len(), meta_fields(&fields)));
            for p in [renc.len() / 2, renc.len() - 2, renc.len()] {
                cx.op(&format!("parse-req 128 {}", hx(&renc[..p])));
            }
        }
    }
    // limits other than the four of the main loop: field counts just below, at and above each
    for lim in [2usize, 3, 5, 8, 16, 17, 20, 32, 64, 100, 127, 129, 256] {
        for count in [lim.saturating_sub(1), lim, lim + 1, lim + 2] {
            cx.case("limits");
            let fields: Vec<Field> = (0..count).map(|k| Field { name: format!("f{}", k).into_bytes(), pre: b" ".to_vec(), value: vec![b'0' + (k % 10) as u8], post: vec![] }).collect();
            let h = Head { version: 1, status: 200, reason: Some(b"OK".to_vec()), fields: fields.clone() };
            let enc = h.enc();
            cx.meta(&h.meta());
            cx.meta(&format!("limit {}", lim));
            for p in [enc.len() / 2, enc.len() - 2, enc.len()] {
                cx.op(&format!("parse-resp {} {}", lim, hx(&enc[..p])));
                cx.op(&format!("parse-partial {} {}", lim, hx(&enc[..p])));
            }
            let mut renc = b"GET / HTTP/1.1\r\n".to_vec();
            renc.extend_from_slice(&enc_fields(&fields));
            renc.extend_from_slice(b"\r\n");
            cx.meta(&format!("reqhead {} {} 1 {}{}", hx(b"GET"), hx(b"/"), fields.len(), meta_fields(&fields)));
            cx.op(&format!("parse-req {} {}", lim, hx(&renc[..renc.len() - 1])));
            cx.op(&format!("parse-req {} {}", lim, hx(&renc)));
        }
    }
}
