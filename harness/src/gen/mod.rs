//! Case generators, one family per domain. Every generator drives the real API through `Rec::op`
//! (adaptive: it looks at results to decide what to present next, as a real caller does) and the
//! recorded trace holds the explicit ops, so replay never depends on the generator.
use crate::exec::{hx, Rec};
use crate::rng::Rng;
use std::io::Write;

pub mod bodyr;
mod bodyw;
mod flowgen;
mod head;
mod redirect;
mod reqgen;
mod exchange;

pub struct Ctx<'a> {
    pub seed: u64,
    pub thorough: bool,
    pub rec: &'a mut Rec,
    pub out: &'a mut dyn Write,
    pub cases: u64,
}

impl<'a> Ctx<'a> {
    pub fn case(&mut self, stream: &str) -> Rng {
        // flush what the previous case recorded
        self.out.write_all(self.rec.out.as_bytes()).unwrap();
        self.rec.out.clear();
        let id = format!("{}-{}", stream, self.cases);
        self.rec.case(&id);
        self.cases += 1;
        Rng::for_case(self.seed, self.cases)
    }
    pub fn op(&mut self, op: &str) -> String {
        self.rec.op(op)
    }
    pub fn meta(&mut self, m: &str) {
        self.rec.meta(m)
    }
}

pub fn run(domain: &str, seed: u64, thorough: bool, rec: &mut Rec, out: &mut dyn Write) {
    let mut cx = Ctx { seed, thorough, rec, out, cases: 0 };
    match domain {
        "C01" => exchange::c01(&mut cx),
        "C02" => reqgen::c02(&mut cx),
        "C03" => bodyw::c03(&mut cx),
        "C04" => bodyw::c04(&mut cx),
        "C05" => head::c05(&mut cx),
        "C06" => head::c06(&mut cx),
        "C07" => bodyr::c07(&mut cx),
        "C08" => bodyr::c08(&mut cx),
        "C09" => flowgen::c09(&mut cx),
        "C10" => flowgen::c10(&mut cx),
        "C11" => head::c11(&mut cx),
        "C12" => flowgen::c12(&mut cx),
        "C13" => redirect::c13(&mut cx),
        "C14" => redirect::c14(&mut cx),
        "C15" => redirect::c15(&mut cx),
        "C16" => reqgen::c16(&mut cx),
        "C17" => reqgen::c17(&mut cx),
        "C18" => bodyw::c18(&mut cx),
        "C19" => bodyw::c19(&mut cx),
        "C20" => head::c20(&mut cx),
        "flow" => flowgen::random_histories(&mut cx, if thorough { 20000 } else { 2000 }),
        _ => panic!("unknown domain {}", domain),
    }
}

/// The size ladder: 0..3, then 2^k - 1, 2^k, 2^k + 1 for every k from 4 up to the power of two below `max`
/// (thorough: also 2^k +- 2 and 3 * 2^(k-1)). Every length-like quantity of a property's domain is walked
/// along it once, so that a threshold anywhere in the code (a scratch buffer, a sanity limit, a counter
/// width) has inputs on both sides of it.
pub fn ladder(thorough: bool, max: usize) -> Vec<usize> {
    // the ladder is the same for every seed: the extra seeds of the thorough tier leave it out
    if std::env::var("HOOT_NO_LADDER").is_ok() { return vec![]; }
    let mut v = vec![0usize, 1, 2, 3];
    let mut p = 16usize;
    while p <= max {
        v.extend_from_slice(&[p - 1, p, p + 1]);
        if thorough { v.extend_from_slice(&[p - 2, p + 2, p + p / 2]); }
        p *= 2;
    }
    v.retain(|&x| x <= max + 1);
    v.sort();
    v.dedup();
    v
}

/// The ladder for field names and values. (The Lean scanners append to a list per byte, which would be quadratic
/// in the length; the compiled driver runs their linear twins `parseRespFast` / `parseReqFast`, proved equal and
/// installed with `@[csimp]`, so these go as far as the others.)
pub fn ladder_q(thorough: bool) -> Vec<usize> {
    ladder(thorough, 131072)
}

/// the header part of a `new` line
pub fn hdrs(h: &[(&str, &[u8])]) -> String {
    let mut s = format!("{}", h.len());
    for (k, v) in h {
        s.push_str(&format!(" {} {}", k, hx(v)));
    }
    s
}

/// Drive a fresh flow to SendBody. `framing`: None = default chunked, Some(n) = content-length n.
/// Returns false if the flow did not get there.
pub fn to_send_body(cx: &mut Ctx, method: &str, version: &str, framing: Option<u64>, despite: bool) -> bool {
    let h = match framing {
        None => hdrs(&[]),
        Some(n) => hdrs(&[("content-length", n.to_string().as_bytes())]),
    };
    cx.rec.new_flow(&format!("{} {} http://a.test/p {}", method, version, h));
    if despite {
        cx.op("despite");
    }
    cx.op("proceed");
    cx.op("write 4096");
    cx.op("proceed");
    cx.rec.state() == "sendBody"
}

/// Drive a fresh flow to RecvResponse (request without body).
pub fn to_recv_response(cx: &mut Ctx, method: &str, version: &str) -> bool {
    cx.rec.new_flow(&format!("{} {} http://a.test/p 0", method, version));
    cx.op("proceed");
    cx.op("write 4096");
    cx.op("proceed");
    cx.rec.state() == "recvResponse"
}
