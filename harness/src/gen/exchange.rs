use super::Ctx;
pub fn c01(_cx: &mut Ctx) {}
