//! C01: one exchange (fixed request, fixed server byte stream) under many I/O schedules. Cases of one
//! group (`meta group <id>`) must all produce the same observable outcome; the server bytes consumed must
//! add up to exactly the response message(s) of the exchange (`meta msglen`).
use super::bodyr::NEXT;
use super::Ctx;
use crate::exec::hx;
use crate::rng::Rng;

struct Exchange {
    req: String,
    payload: Vec<u8>,
    stream: Vec<u8>,   // interim 100 (optional) + response message + NEXT
    msglen: usize,     // bytes of this exchange's response message(s)
    /// arrival points inside [lo, hi) are moved to hi: a 3xx head cut after its complete Location line is
    /// accepted early by the partial-redirect fallback (owned by C05)
    forbid: Option<(usize, usize)>,
    /// the response body is close-delimited: the caller reads until the connection has ended
    close: bool,
    /// the request carries Expect: 100-continue (the stream then starts with an interim 100)
    expect: bool,
    body_method: bool,
}

fn gen_exchange(r: &mut Rng) -> Exchange {
    let body_method = r.chance(1, 2);
    let method = if body_method { *r.pick(&["POST", "PUT", "PATCH"]) } else { *r.pick(&["GET", "HEAD", "DELETE", "OPTIONS"]) };
    let version = if matches!(method, "GET" | "HEAD" | "POST") && r.chance(1, 4) { "HTTP/1.0" } else { "HTTP/1.1" };
    let payload: Vec<u8> = (0..if body_method && !r.chance(1, 6) { if r.chance(1, 8) { r.range(4090, 4200) } else { r.range(0, 300) } } else { 0 }).map(|i| (i * 7 % 251) as u8).collect();
    let mut hs: Vec<(String, Vec<u8>)> = vec![("x-trace".into(), b"abc".to_vec())];
    let expect = body_method && r.chance(1, 2);
    if body_method && r.chance(1, 2) { hs.push(("content-length".into(), payload.len().to_string().into_bytes())); }
    if expect { hs.push(("expect".into(), b"100-continue".to_vec())); }
    if r.chance(1, 6) { hs.push(("connection".into(), b"close".to_vec())); }
    let mut req = format!("{} {} http://a.test/path?q=1 {}", method, version, hs.len());
    for (k, v) in &hs { req.push_str(&format!(" {} {}", k, hx(v))); }
    // server side
    let mut stream = Vec::new();
    // with Expect the server answers 100 first (whether the caller sees it in time is part of the schedule);
    // without Expect there is no interim response
    let interim = expect;
    if interim { stream.extend_from_slice(b"HTTP/1.1 100 Continue\r\n\r\n"); }
    let status = *r.pick(&[200u16, 200, 201, 204, 301, 302, 404, 500, 304]);
    let rv = if r.chance(1, 5) { "HTTP/1.0" } else { "HTTP/1.1" };
    let head_start = stream.len();
    // one head in five carries no field beyond what the framing needs (with no framing at all: a bare status line)
    let mut head = format!("{} {} Reason\r\n{}", rv, status, if r.chance(1, 5) { "" } else { "X-One: 1\r\n" }).into_bytes();
    if r.chance(1, 5) { head.extend_from_slice(b"Connection: close\r\n"); }
    let body: Vec<u8> = (0..if r.chance(1, 6) { 0 } else { r.range(0, 120) }).map(|_| *r.pick(b"ab\r\n0;xHTTP/1. ")).collect();
    // 0/2: Content-Length, 1: chunked (HTTP/1.1), 3: no framing at all = close-delimited (then nothing follows)
    let framing = r.below(4);
    // a redirect without any framing field has no body (body.rs: is_redirect && !has_body_header)
    let no_body = method == "HEAD" || matches!(status, 204 | 304) || (framing == 3 && (300..400).contains(&status));
    let mut coded = Vec::new();
    match framing {
        0 => { head.extend_from_slice(format!("Content-Length: {}\r\n", body.len()).as_bytes()); coded.extend_from_slice(&body); }
        1 if rv == "HTTP/1.1" => {
            head.extend_from_slice(b"Transfer-Encoding: chunked\r\n");
            let mut off = 0;
            while off < body.len() { let n = 1 + r.below((body.len() - off).min(40));
                let size = format!("{:X}", n);
                let ext = match r.below(4) { 0 => format!(";name={}", "abcdefghijklmnopq".chars().take(20 - size.len() - 6).collect::<String>()), 1 => ";x".to_string(), _ => String::new() };
                coded.extend_from_slice(format!("{}{}\r\n", size, ext).as_bytes()); coded.extend_from_slice(&body[off..off + n]); coded.extend_from_slice(b"\r\n"); off += n; }
            coded.extend_from_slice(b"0\r\n");
            if r.chance(1, 3) { coded.extend_from_slice(b"Trailer: x\r\n"); }
            coded.extend_from_slice(b"\r\n");
        }
        3 => { coded.extend_from_slice(&body); }
        _ => { head.extend_from_slice(format!("Content-Length: {}\r\n", body.len()).as_bytes()); coded.extend_from_slice(&body); }
    }
    let close_delimited = framing == 3 && !no_body;
    let mut forbid = None;
    // a Location field on a response that is not a redirect (201 Created, ...): an ordinary field
    if !(300..400).contains(&status) && r.chance(1, 3) { head.extend_from_slice(b"Location: /created/7\r\n"); }
    if (300..400).contains(&status) && status != 304 {
        let loc_end = head_start + head.len() + b"Location: /next\r\n".len();
        head.extend_from_slice(b"Location: /next\r\n");
        forbid = Some((loc_end, loc_end + 2));
    }
    head.extend_from_slice(b"\r\n");
    stream.extend_from_slice(&head);
    if !no_body { stream.extend_from_slice(&coded); }
    let msglen = stream.len();
    if !close_delimited { stream.extend_from_slice(NEXT); }
    Exchange { req, payload, stream, msglen, forbid, close: close_delimited, expect, body_method }
}

fn adjust(ex: &Exchange, p: usize) -> usize {
    match ex.forbid { Some((lo, hi)) if p >= lo && p < hi => hi, _ => p }
}

/// run the exchange under one schedule drawn from `r`
fn run_schedule(cx: &mut Ctx, ex: &Exchange, r: &mut Rng, mode: usize) {
    if cx.rec.new_flow(&ex.req) != "ok" { return; }
    // mode 5: buffers on the boundaries where the chunk-size line grows a digit, everything offered at once
    // (the body is written into a buffer of ONE such size for the whole exchange: a size at which nothing fits
    // must not exist)
    let fixed_body_cap = *r.pick(&[20usize, 21, 22, 261, 262, 263, 4103, 4104]);
    let cap_of = |r: &mut Rng| -> usize { match mode { 0 => 100000, 1 => 1 + r.below(8), 2 => *r.pick(&[5usize, 6, 7, 16, 30, 64]), 3 => r.range(1, 300), 5 => *r.pick(&[64usize, 300, 5000]), 6 => *r.pick(&[20496usize, 20502, 20600, 30744, 65536]), 7 => 100000, _ => *r.pick(&[1usize, 2, 3, 20, 100000]) } };
    let big = ex.payload.len() > 1000 || ex.stream.len() > 3000;
    let mut fives = 0usize;
    let step_of = |r: &mut Rng| -> usize { match mode { 0 | 5 | 6 | 7 => 100000, 1 => if big { 37 } else { 1 }, 2 => if big { 50 } else { 1 + r.below(4) }, 3 => r.range(1, 60) * if big { 10 } else { 1 }, _ => *r.pick(&[1usize, 2, 7, 100000]) } };
    let query = |cx: &mut Ctx, r: &mut Rng| { if mode != 0 && r.chance(1, 4) { cx.op("canproceed"); } };
    let mut arrived = 0usize;
    let mut soff = 0usize;
    let mut boff = 0usize;
    let mut guard = 0;
    let mut gave_up = r.chance(1, 3);
    // calls in a row that neither moved the flow on nor transferred a byte: a healthy exchange makes progress
    // (bytes keep arriving, buffers of every size let a body write through); give up instead of spinning
    let mut idle = 0usize;
    let mut last = (String::new(), 0usize, 0usize, 0usize);
    while guard < 6000 {
        guard += 1;
        let now = (cx.rec.state().to_string(), soff, boff, arrived);
        if now == last { idle += 1; } else { idle = 0; last = now; }
        if idle > 300 { break; }
        match cx.rec.state() {
            "prepare" => { cx.op("proceed"); }
            "sendRequest" => {
                // the head writer needs room for the longest line; smaller buffers are a (repeatable) error
                let cap = cap_of(r).max(if mode == 1 { 1 } else { 0 });
                let res = cx.op(&format!("write {}", if cap < 40 && r.chance(1, 2) { cap + 40 } else { cap }));
                let _ = res;
                query(cx, r);
                if cx.op("canproceed") == "bool true" { cx.op("proceed"); }
            }
            "await100" => {
                if cx.op("keep100") == "bool false" || (gave_up && r.chance(1, 2)) { cx.op("proceed"); gave_up = false; continue; }
                arrived = adjust(ex, (arrived + step_of(r)).min(ex.stream.len()));
                let res = cx.op(&format!("read100 {}", hx(&ex.stream[soff..arrived])));
                if let Some(n) = res.strip_prefix("count ") { soff += n.parse::<usize>().unwrap_or(0); }
                if arrived >= ex.stream.len() && cx.op("keep100") == "bool true" { cx.op("proceed"); }
            }
            "sendBody" => {
                if r.chance(1, 5) { cx.op("chunked?"); }
                if r.chance(1, 6) { cx.op(&format!("maxin {}", cap_of(r))); }
                let chunked = cx.op("chunked?") == "bool true";
                if boff < ex.payload.len() {
                    let upto = (boff + step_of(r).max(1)).min(ex.payload.len());
                    // a chunked write needs 6 bytes to make progress; room of exactly 5 bytes (nothing fits but the
                    // terminator would) is offered now and then, and 5 bytes behind a full chunk in mode 7
                    let cap = if mode == 5 { fixed_body_cap } else if mode == 7 { 10253 }
                              else if chunked { if fives < 3 && r.chance(1, 4) { fives += 1; 5 } else { cap_of(r).max(6) } } else { cap_of(r) };
                    let res = cx.op(&format!("bwrite {} {}", hx(&ex.payload[boff..upto]), cap));
                    let p: Vec<&str> = res.split(' ').collect();
                    if p[0] == "bytes" { boff += p[1].parse::<usize>().unwrap_or(0); } else { return; }
                } else {
                    if cx.op("canproceed") == "bool true" { cx.op("proceed"); continue; }
                    let cap = cap_of(r);
                    cx.op(&format!("bwrite - {}", cap));
                }
                query(cx, r);
            }
            "recvResponse" => {
                let res = cx.op(&format!("resp {}", hx(&ex.stream[soff..arrived.max(soff)])));
                let p: Vec<&str> = res.split(' ').collect();
                if p[0] != "resp" { return; }
                let n: usize = p[1].parse().unwrap_or(0);
                soff += n;
                if p[2] != "none" { query(cx, r); cx.op("proceed"); }
                else if n == 0 {
                    if arrived >= ex.stream.len() { return; }
                    arrived = adjust(ex, (arrived.max(soff) + step_of(r)).min(ex.stream.len()));
                }
            }
            "recvBody" => {
                if r.chance(1, 6) { cx.op("boundary"); }
                if r.chance(1, 8) { cx.op("mode"); }
                // a poll that came up empty: a read with nothing to offer changes nothing
                if mode != 0 && r.chance(1, 4) { let cap = cap_of(r); cx.op(&format!("bread - {}", cap)); }
                if cx.op("canproceed") == "bool true" && arrived >= ex.msglen && (!ex.close || soff >= ex.msglen) { cx.op("proceed"); continue; }
                let cap = cap_of(r);
                let res = cx.op(&format!("bread {} {}", hx(&ex.stream[soff..arrived.max(soff)]), cap));
                let p: Vec<&str> = res.split(' ').collect();
                if p[0] != "bytes" { return; }
                let n: usize = p[1].parse().unwrap_or(0);
                soff += n;
                if n == 0 && p[2] == "-" {
                    if arrived >= ex.stream.len() {
                        // close-delimited or stuck: everything has arrived
                        if cx.op("canproceed") == "bool true" { cx.op("proceed"); } else { return; }
                    } else {
                        arrived = (arrived.max(soff) + step_of(r)).min(ex.stream.len());
                    }
                }
            }
            "redirect" => { cx.op("status"); cx.op("close?"); cx.op("reason"); cx.op("proceed"); }
            "cleanup" => { cx.op("close?"); cx.op("reason"); break; }
            _ => break,
        }
    }
    cx.meta(&format!("consumed {}", soff));
}

/// the same exchange through the single-call API (`Call`): write until finished, into_receive, try_response
/// until a response, into_body, read until ended — under the same kinds of schedules
fn run_call_schedule(cx: &mut Ctx, ex: &Exchange, r: &mut Rng, mode: usize) {
    let kind = if ex.body_method { "body" } else { "nobody" };
    if cx.rec.new_call(kind, &ex.req) != "ok" { return; }
    let cap_of = |r: &mut Rng| -> usize { match mode { 0 => 100000, 1 => 1 + r.below(8), 2 => *r.pick(&[5usize, 6, 7, 16, 30, 64]), 3 => r.range(1, 300), _ => *r.pick(&[1usize, 2, 3, 20, 100000]) } };
    let big = ex.payload.len() > 1000;
    let step_of = |r: &mut Rng| -> usize { match mode { 0 => 100000, 1 => if big { 37 } else { 1 }, 2 => if big { 50 } else { 1 + r.below(4) }, 3 => r.range(1, 60) * if big { 10 } else { 1 }, _ => *r.pick(&[1usize, 2, 7, 100000]) } };
    // send
    let mut boff = 0usize;
    let mut guard = 0;
    let mut idle = 0;
    loop {
        guard += 1;
        if guard > 3000 || idle > 200 { return; }
        if cx.op("cfinished") == "bool true" { break; }
        let cap = { let c = cap_of(r); if c < 40 && r.chance(1, 2) { c + 40 } else { c } };
        let res = if ex.body_method {
            let upto = (boff + step_of(r).max(1)).min(ex.payload.len());
            cx.op(&format!("cbwrite {} {}", hx(&ex.payload[boff..upto]), cap.max(6)))
        } else {
            cx.op(&format!("cwrite {}", cap))
        };
        let p: Vec<&str> = res.split(' ').collect();
        if p[0] == "bytes" {
            let n = p[1].parse::<usize>().unwrap_or(0);
            boff += n;
            if n == 0 && p[2] == "-" { idle += 1; } else { idle = 0; }
        } else if res.contains("OutputOverflow") { idle += 1; } else { return; }
    }
    if cx.op("cinto") != "state callRecvResponse" { return; }
    // receive
    let mut arrived = 0usize;
    let mut soff = 0usize;
    guard = 0;
    loop {
        guard += 1;
        if guard > 3000 { return; }
        let res = cx.op(&format!("cresp {}", hx(&ex.stream[soff..arrived.max(soff)])));
        let p: Vec<&str> = res.split(' ').collect();
        if p[0] != "resp" { return; }
        let n: usize = p[1].parse().unwrap_or(0);
        soff += n;
        if p[2] != "none" { break; }
        if n == 0 {
            if arrived >= ex.stream.len() { return; }
            arrived = adjust(ex, (arrived.max(soff) + step_of(r)).min(ex.stream.len()));
        }
    }
    cx.op("cfinished");
    let b = cx.op("cbody");
    if b == "state callRecvBody" {
        guard = 0;
        loop {
            guard += 1;
            if guard > 3000 { break; }
            let ended = cx.op("cended") == "bool true";
            if ended && (!ex.close || soff >= ex.msglen) { break; }
            if ex.close && soff >= ex.msglen && arrived >= ex.stream.len() { break; }
            let cap = cap_of(r);
            let res = cx.op(&format!("cread {} {}", hx(&ex.stream[soff..arrived.max(soff)]), cap));
            let p: Vec<&str> = res.split(' ').collect();
            if p[0] != "bytes" { break; }
            let n: usize = p[1].parse().unwrap_or(0);
            soff += n;
            if n == 0 && p[2] == "-" {
                if arrived >= ex.stream.len() { break; }
                arrived = (arrived.max(soff) + step_of(r)).min(ex.stream.len());
            }
        }
    }
    cx.meta(&format!("consumed {}", soff));
}

/// the same exchange through the caller loop of the composition theorems (`xrun`, Lean `xRun`): one op
/// carries payload, server stream and the whole schedule of (bytes presented, buffer size, give-up) triples
fn run_xrun(cx: &mut Ctx, ex: &Exchange, r: &mut Rng, mode: usize) {
    if cx.rec.new_flow(&ex.req) != "ok" { return; }
    let total = ex.stream.len() + ex.payload.len() + 40;
    let steps = match mode { 0 => 12, 1 => 3 * total + 200, _ => total + 200 };
    let mut sched = String::new();
    for i in 0..steps {
        let (m, cap) = match mode {
            0 => (100000, 100000),
            1 => (i / 2, 41 + (i % 3)),                               // bytes trickle in; a buffer that just fits a head line
            2 => (r.below(ex.stream.len() + 2), *r.pick(&[41usize, 50, 64, 128, 1000])),
            _ => (i * (1 + r.below(3)), r.range(41, 300)),
        };
        let give = match mode { 0 => false, 1 => i == 30, _ => r.chance(1, 40) };
        sched.push_str(&format!(" {}:{}:{}", m, cap, if give { 1 } else { 0 }));
    }
    // the messages of this exchange only: what follows belongs to the next exchange and must stay untouched
    cx.op(&format!("xrun {} {}{}", hx(&ex.payload), hx(&ex.stream), sched));
    for _ in 0..2 {
        match cx.rec.state() {
            "redirect" => { cx.op("status"); cx.op("close?"); cx.op("reason"); cx.op("proceed"); }
            "cleanup" => { cx.op("close?"); cx.op("reason"); break; }
            _ => break,
        }
    }
}

/// an `Expect` request that the server answers with a final response and no interim 100: whether the body
/// goes out depends (legitimately) on the schedule, so each run is a group of its own; the response side
/// and the model comparison are checked as for every exchange
fn refusal_exchange(r: &mut Rng) -> Exchange {
    let method = *r.pick(&["POST", "PUT", "PATCH"]);
    let payload: Vec<u8> = (0..r.range(0, 60)).map(|i| (i * 11 % 251) as u8).collect();
    let mut hs: Vec<(String, Vec<u8>)> = vec![("expect".into(), b"100-continue".to_vec())];
    if r.chance(1, 2) { hs.push(("content-length".into(), payload.len().to_string().into_bytes())); }
    let mut req = format!("{} HTTP/1.1 http://a.test/up {}", method, hs.len());
    for (k, v) in &hs { req.push_str(&format!(" {} {}", k, hx(v))); }
    let status = *r.pick(&[403u16, 417, 200, 404, 500, 101]);
    let body: Vec<u8> = if status == 101 { vec![] } else { (0..r.range(0, 30)).map(|_| *r.pick(b"ab\r\n0;x")).collect() };
    let mut stream = if r.chance(1, 3) && status != 101 {
        // a bare status line: decisive only once the blank line has arrived
        format!("HTTP/1.1 {} No\r\n\r\n", status).into_bytes()
    } else {
        format!("HTTP/1.1 {} No\r\nX-Why: policy\r\nContent-Length: {}\r\n\r\n", status, body.len()).into_bytes()
    };
    let bare = !stream.windows(2).any(|w| w == b": ");
    if !bare { stream.extend_from_slice(&body); }
    let msglen = stream.len();
    // a bare non-1xx status line leaves the body close-delimited: then nothing follows
    let close = bare && status != 101;
    if !close { stream.extend_from_slice(NEXT); }
    Exchange { req, payload, stream, msglen, forbid: None, close, expect: true, body_method: true }
}

pub fn c01(cx: &mut Ctx) {
    let groups = if cx.thorough { 1500 } else { 150 };
    let schedules = if cx.thorough { 24 } else { 12 };
    for k in 0..(if cx.thorough { 400 } else { 60 }) {
        let mut r = cx.case("xref");
        let ex = refusal_exchange(&mut r);
        cx.meta(&format!("group r{}", k));
        cx.meta(&format!("msglen {}", ex.msglen));
        cx.meta(&format!("payload {}", hx(&ex.payload)));
        run_xrun(cx, &ex, &mut r, k % 4);
    }
    // a close-delimited response whose body is empty (the server closes right after the head): some schedules
    // never read, some poll once with nothing to offer — the outcome, verdict included, is the same
    for (k, head) in ["HTTP/1.1 200 OK\r\nX-One: 1\r\n\r\n", "HTTP/1.0 200 OK\r\n\r\n", "HTTP/1.1 404 Nope\r\nX: y\r\n\r\n"].iter().enumerate() {
        let ex = Exchange { req: "GET HTTP/1.1 http://a.test/path?q=1 1 x-trace 616263".into(), payload: vec![], stream: head.as_bytes().to_vec(),
                            msglen: head.len(), forbid: None, close: true, expect: false, body_method: false };
        for s in 0..schedules {
            let mut r = cx.case("xe");
            cx.meta(&format!("group e{}", k));
            cx.meta(&format!("msglen {}", ex.msglen));
            cx.meta("payload -");
            run_schedule(cx, &ex, &mut r, s % 5);
        }
    }
    // a chunked request body of several default-sized chunks (25 000 .. 41 000 bytes, not periodic): offered in
    // one call with room for three or four chunks, with room for two, in pieces, through small buffers
    for (k, plen) in [25000usize, 30721, 41000].iter().enumerate() {
        let mut x: u32 = 0x9e3779b9 ^ (k as u32);
        let payload: Vec<u8> = (0..*plen).map(|_| { x ^= x << 13; x ^= x >> 17; x ^= x << 5; (x >> 8) as u8 }).collect();
        let mut stream = b"HTTP/1.1 200 OK\r\nContent-Length: 2\r\n\r\nok".to_vec();
        let msglen = stream.len();
        stream.extend_from_slice(NEXT);
        let ex = Exchange { req: "POST HTTP/1.1 http://a.test/path?q=1 1 x-trace 616263".into(), payload, stream, msglen, forbid: None, close: false, expect: false, body_method: true };
        for (s, mode) in [0usize, 6, 6, 6, 3, 5, 7].iter().enumerate() {
            let mut r = cx.case("xb");
            let _ = s;
            cx.meta(&format!("group b{}", k));
            cx.meta(&format!("msglen {}", ex.msglen));
            cx.meta(&format!("payload {}", hx(&ex.payload)));
            run_schedule(cx, &ex, &mut r, *mode);
        }
        let mut r = cx.case("xbc");
        cx.meta(&format!("group bc{}", k));
        cx.meta(&format!("msglen {}", ex.msglen));
        cx.meta(&format!("payload {}", hx(&ex.payload)));
        cx.meta("callapi");
        run_call_schedule(cx, &ex, &mut r, 0);
    }
    // response heads with 100 .. 128 fields (the most the response parser takes): whole, byte by byte, in pieces
    for (k, nf) in [100usize, 101, 113, 128].iter().enumerate() {
        let mut head = b"HTTP/1.1 200 OK\r\n".to_vec();
        for i in 0..(*nf - 1) { head.extend_from_slice(format!("f{}: {}\r\n", i, i % 7).as_bytes()); }
        head.extend_from_slice(b"Content-Length: 3\r\n\r\n");
        let mut stream = head.clone();
        stream.extend_from_slice(b"abc");
        let msglen = stream.len();
        stream.extend_from_slice(NEXT);
        let ex = Exchange { req: "GET HTTP/1.1 http://a.test/path?q=1 1 x-trace 616263".into(), payload: vec![], stream, msglen, forbid: None, close: false, expect: false, body_method: false };
        for s in 0..5 {
            let mut r = cx.case("xh");
            cx.meta(&format!("group h{}", k));
            cx.meta(&format!("msglen {}", ex.msglen));
            cx.meta("payload -");
            run_schedule(cx, &ex, &mut r, s);
            let mut r = cx.case("xhc");
            cx.meta(&format!("group hc{}", k));
            cx.meta(&format!("msglen {}", ex.msglen));
            cx.meta("payload -");
            cx.meta("callapi");
            run_call_schedule(cx, &ex, &mut r, s);
        }
    }
    // a 100 that comes late (the caller gave up and sent the body) and in two pieces, cut at every position; the
    // final response has a bare head / a short head, with every framing
    for (k, fin) in ["HTTP/1.1 200 OK\r\n\r\nclose-delimited", "HTTP/1.1 200 OK\r\nContent-Length: 2\r\n\r\nok", "HTTP/1.0 404 N\r\n\r\n", "HTTP/1.1 204\r\n\r\n", "HTTP/1.1 200 OK\r\nTransfer-Encoding: chunked\r\n\r\n2\r\nok\r\n0\r\n\r\n"].iter().enumerate() {
        let interim: &[u8] = if k % 2 == 0 { b"HTTP/1.1 100 Continue\r\n\r\n" } else { b"HTTP/1.1 100 Go on then, please\r\n\r\n" };
        let close = k == 0 || k == 2;
        let mut stream = interim.to_vec();
        stream.extend_from_slice(fin.as_bytes());
        let msglen = stream.len();
        if !close { stream.extend_from_slice(NEXT); }
        let payload = b"hello".to_vec();
        for cut in 0..=interim.len() + 3 {
            cx.case("xlate");
            cx.meta(&format!("group late{}", k));
            cx.meta(&format!("msglen {}", msglen));
            cx.meta(&format!("payload {}", hx(&payload)));
            if cx.rec.new_flow(&format!("POST HTTP/1.1 http://a.test/path?q=1 2 x-trace 616263 expect {}", hx(b"100-continue"))) != "ok" { continue; }
            cx.op("proceed"); cx.op("write 4096"); cx.op("proceed");
            if cx.rec.state() != "await100" { continue; }
            cx.op("proceed");
            if cx.rec.state() != "sendBody" { continue; }
            cx.op("chunked?");
            cx.op(&format!("bwrite {} 100", hx(&payload))); cx.op("bwrite - 100"); cx.op("proceed");
            let mut soff = 0usize;
            let mut arrived = cut;
            let mut guard = 0;
            while cx.rec.state() == "recvResponse" && guard < 12 {
                guard += 1;
                let res = cx.op(&format!("resp {}", hx(&stream[soff..arrived.max(soff)])));
                let p: Vec<&str> = res.split(' ').collect();
                if p[0] != "resp" { break; }
                let n: usize = p[1].parse().unwrap_or(0);
                soff += n;
                if p[2] != "none" { cx.op("proceed"); break; }
                if n == 0 { if arrived >= stream.len() { break; } arrived = stream.len(); }
            }
            guard = 0;
            while cx.rec.state() == "recvBody" && guard < 12 {
                guard += 1;
                if cx.op("canproceed") == "bool true" && (!close || soff >= msglen) { cx.op("proceed"); break; }
                let res = cx.op(&format!("bread {} 100", hx(&stream[soff..])));
                let p: Vec<&str> = res.split(' ').collect();
                if p[0] != "bytes" { break; }
                let n: usize = p[1].parse().unwrap_or(0);
                soff += n;
                if n == 0 && p[2] == "-" { if cx.op("canproceed") == "bool true" { cx.op("proceed"); } break; }
            }
            if cx.rec.state() == "cleanup" { cx.op("close?"); cx.op("reason"); }
            cx.meta(&format!("consumed {}", soff));
        }
    }
    for g in 0..groups {
        let mut r0 = Rng::for_case(cx.seed ^ 0x5151, g as u64);
        let ex = gen_exchange(&mut r0);
        for s in 0..schedules {
            let mut r = cx.case("x");
            cx.meta(&format!("group {}", g));
            cx.meta(&format!("msglen {}", ex.msglen));
            cx.meta(&format!("payload {}", hx(&ex.payload)));
            run_schedule(cx, &ex, &mut r, s % 6);
        }
        // the single-call API: requests without Expect (Call has no Await100 state), all five schedule shapes
        if !ex.expect {
            for s in 0..5 {
                let mut r = cx.case("xc");
                cx.meta(&format!("group c{}", g));
                cx.meta(&format!("msglen {}", ex.msglen));
                cx.meta(&format!("payload {}", hx(&ex.payload)));
                cx.meta("callapi");
                run_call_schedule(cx, &ex, &mut r, if ex.forbid.is_some() { 0 } else { s });
            }
        }
        // a 3xx head with Location only under schedules whose windows are safe (D10 is owned by C05): everything
        // at once (mode 0); the other exchanges under all four schedule shapes
        {
            for s in 0..(if ex.forbid.is_none() { 4 } else { 1 }) {
                let mut r = cx.case("xr");
                cx.meta(&format!("group x{}", g));
                cx.meta(&format!("msglen {}", ex.msglen));
                cx.meta(&format!("payload {}", hx(&ex.payload)));
                run_xrun(cx, &ex, &mut r, s);
            }
        }
    }
    // the size ladder over the two payloads of an exchange: the request body (both framings) and the response
    // body (length-delimited, chunked in pieces of at most 4000, close-delimited), each whole, through buffers
    // of up to 300 bytes, and through buffers that hold two or three default chunks
    for l in super::ladder(cx.thorough, 65536) {
        if l < 255 { continue; }
        let mut x: u32 = 0x2545f491 ^ (l as u32);
        let data: Vec<u8> = (0..l).map(|_| { x ^= x << 13; x ^= x >> 17; x ^= x << 5; (x >> 9) as u8 }).collect();
        let mut exs: Vec<Exchange> = vec![];
        for sized in [false, true] {
            let mut stream = b"HTTP/1.1 200 OK\r\nContent-Length: 2\r\n\r\nok".to_vec();
            let msglen = stream.len();
            stream.extend_from_slice(NEXT);
            let req = if sized { format!("PUT HTTP/1.1 http://a.test/path?q=1 1 content-length {}", hx(l.to_string().as_bytes())) } else { "POST HTTP/1.1 http://a.test/path?q=1 1 x-trace 616263".to_string() };
            exs.push(Exchange { req, payload: data.clone(), stream, msglen, forbid: None, close: false, expect: false, body_method: true });
        }
        for framing in 0..3 {
            let mut stream = match framing {
                0 => format!("HTTP/1.1 200 OK\r\nContent-Length: {}\r\n\r\n", l).into_bytes(),
                1 => b"HTTP/1.1 200 OK\r\nTransfer-Encoding: chunked\r\n\r\n".to_vec(),
                _ => b"HTTP/1.1 200 OK\r\nX-One: 1\r\n\r\n".to_vec(),
            };
            if framing == 1 {
                let mut off = 0;
                while off < l { let n = (l - off).min(4000 - (off % 7)); stream.extend_from_slice(format!("{:x}\r\n", n).as_bytes()); stream.extend_from_slice(&data[off..off + n]); stream.extend_from_slice(b"\r\n"); off += n; }
                stream.extend_from_slice(b"0\r\n\r\n");
            } else { stream.extend_from_slice(&data); }
            let msglen = stream.len();
            if framing != 2 { stream.extend_from_slice(NEXT); }
            exs.push(Exchange { req: "GET HTTP/1.1 http://a.test/path?q=1 1 x-trace 616263".into(), payload: vec![], stream, msglen, forbid: None, close: framing == 2, expect: false, body_method: false });
        }
        for (ei, ex) in exs.iter().enumerate() {
            for mode in [0usize, 3, 6] {
                let mut r = cx.case("xl");
                cx.meta(&format!("group l{}-{}", l, ei));
                cx.meta(&format!("msglen {}", ex.msglen));
                cx.meta(&format!("payload {}", hx(&ex.payload)));
                run_schedule(cx, ex, &mut r, mode);
            }
            let mut r = cx.case("xlc");
            cx.meta(&format!("group lc{}-{}", l, ei));
            cx.meta(&format!("msglen {}", ex.msglen));
            cx.meta(&format!("payload {}", hx(&ex.payload)));
            cx.meta("callapi");
            run_call_schedule(cx, ex, &mut r, 0);
        }
    }
}
