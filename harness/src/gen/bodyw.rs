//! Request body writer: C03 (chunked), C04 (sized), C18 (max input), C19 (progress).
use super::{to_send_body, Ctx};
use crate::exec::hx;

fn pat(seed: usize, len: usize) -> Vec<u8> {
    (0..len).map(|k| ((seed + k) % 251) as u8).collect()
}

/// one body write; small inputs are written out in hex, large ones as a deterministic pattern
fn bwrite(cx: &mut Ctx, seed: usize, len: usize, cap: usize) -> (bool, usize) {
    let res = if len <= 48 { cx.op(&format!("bwrite {} {}", hx(&pat(seed, len)), cap)) } else { cx.op(&format!("bwriten {} {} {}", len, seed, cap)) };
    let p: Vec<&str> = res.split(' ').collect();
    if p[0] == "bytes" {
        (true, p[1].parse().unwrap_or(0))
    } else {
        (false, 0)
    }
}

pub fn c03(cx: &mut Ctx) {
    // exhaustive small scope: (input 0..=L) x (cap 0..=L) sequences of length <= 2 (quick) / 3 (thorough on a smaller L)
    let l = 14usize;
    for i1 in 0..=l {
        for c1 in 0..=l + 6 {
            for i2 in [0usize, 1, 7] {
                for c2 in [0usize, 4, 5, 6, 30] {
                    cx.case("ex");
                    if !to_send_body(cx, "POST", "HTTP/1.1", None, false) { continue; }
                    bwrite(cx, 1, i1, c1);
                    cx.op("canproceed");
                    bwrite(cx, 1 + i1, i2, c2);
                    cx.op("canproceed");
                    bwrite(cx, 3, 0, 5);
                    cx.op("canproceed");
                    bwrite(cx, 3, 0, 5);
                    bwrite(cx, 3, 1, 50);
                    cx.op("proceed");
                }
            }
        }
    }
    // the head written once more after it is complete (a transport loop that writes until it gets nothing), into
    // buffers with and without room for a terminator: the body that follows is still the caller's to write and end
    for (m, ver, despite) in [("POST", "HTTP/1.1", false), ("PUT", "HTTP/1.1", false), ("POST", "HTTP/1.0", false), ("GET", "HTTP/1.1", true), ("GET", "HTTP/1.0", true), ("HEAD", "HTTP/1.0", true)] {
        for extra in [0usize, 4, 5, 6, 4096] {
            for times in [1usize, 2] {
                cx.case("headagain");
                cx.rec.new_flow(&format!("{} {} http://a.test/p 0", m, ver));
                if despite { cx.op("despite"); }
                cx.op("proceed");
                cx.op("write 4096");
                for _ in 0..times { cx.op(&format!("write {}", extra)); }
                cx.op("canproceed");
                cx.op("proceed");
                if cx.rec.state() != "sendBody" { continue; }
                cx.op("chunked?");
                cx.op("canproceed");
                bwrite(cx, 2, 3, 64);
                cx.op("canproceed");
                bwrite(cx, 5, 0, 64);
                cx.op("canproceed");
                cx.op("proceed");
            }
        }
    }
    // caps leaving exactly 0..8 bytes after a chunk
    for body in [1usize, 9, 15, 16, 17, 255, 256, 257, 4095, 4096, 4097] {
        for extra in 0..=9usize {
            for more in [1usize, 20] {
                cx.case("left");
                if !to_send_body(cx, "POST", "HTTP/1.1", None, false) { continue; }
                let hexlen = format!("{:x}", body).len();
                let cap = hexlen + 4 + body + extra;
                bwrite(cx, 0, body + more, cap);
                bwrite(cx, 0, 0, 4);
                cx.op("canproceed");
                bwrite(cx, 0, 0, 5);
                cx.op("canproceed");
                cx.op("proceed");
            }
        }
    }
    // around the 10 KiB chunk size
    for input in [10239usize, 10240, 10241, 10249, 20479, 20480, 20481, 20490, 30000] {
        for cap in [10245usize, 10247, 10248, 10249, 10253, 10254, 20496, 20501, 20502, 40000] {
            cx.case("big");
            if !to_send_body(cx, "PUT", "HTTP/1.1", None, false) { continue; }
            let mut off = 0;
            let mut guard = 0;
            while off < input && guard < 8 {
                let (ok, used) = bwrite(cx, off, input - off, cap);
                if !ok || used == 0 { break; }
                off += used;
                guard += 1;
            }
            bwrite(cx, 0, 0, cap);
            cx.op("canproceed");
        }
    }
    // the caller supplied everything the analysis would add (Host, framing): the body writer must still be
    // set up once and remember that the body ended
    for (vi, hs) in [vec![("host", &b"h.test"[..]), ("transfer-encoding", &b"chunked"[..])],
                     vec![("transfer-encoding", &b"Chunked"[..]), ("host", &b"h.test"[..]), ("x-a", &b"1"[..])],
                     vec![("host", &b"h.test"[..])],
                     // the coding name in any letter case, beside a Content-Length: chunked decides the writer
                     vec![("transfer-encoding", &b"Chunked"[..]), ("content-length", &b"5"[..])],
                     vec![("content-length", &b"5"[..]), ("transfer-encoding", &b"CHUNKED"[..]), ("host", &b"h.test"[..])],
                     vec![("transfer-encoding", &b"gzip, cHuNkEd"[..]), ("content-length", &b"3"[..])],
                     vec![("transfer-encoding", &b" chunked "[..])],
                     // chunked on the second Transfer-Encoding line, beside a Content-Length
                     vec![("transfer-encoding", &b"gzip"[..]), ("transfer-encoding", &b"chunked"[..]), ("content-length", &b"5"[..])],
                     vec![("content-length", &b"4"[..]), ("transfer-encoding", &b"gzip"[..]), ("x-a", &b"1"[..]), ("transfer-encoding", &b"chunked"[..])]].iter().enumerate() {
        for first in [0usize, 1, 5] {
            for cap in [5usize, 6, 64] {
                cx.case("own");
                cx.rec.new_flow(&format!("POST HTTP/1.1 http://a.test/p {}", super::hdrs(hs)));
                cx.op("proceed"); cx.op("write 4096"); cx.op("proceed");
                if cx.rec.state() != "sendBody" { continue; }
                bwrite(cx, vi, first, 64);
                bwrite(cx, 0, 0, cap);
                cx.op("canproceed");
                bwrite(cx, 0, 0, cap);          // a second end-of-body write emits nothing
                bwrite(cx, 0, 0, 64);
                cx.op("canproceed");
                bwrite(cx, 9, 3, 64);           // content after the end is refused
                cx.op("canproceed");
                cx.op("proceed");
            }
        }
    }
    // several full chunks in one write: input beyond 20 480 bytes into outputs with room for three and four chunks
    for (len, cap) in [(20481usize, 20496usize), (20481, 20502), (25000, 65536), (30720, 30744), (30721, 40000), (41000, 100000), (41000, 20600)] {
        cx.case("multi");
        if !to_send_body(cx, "POST", "HTTP/1.1", None, false) { continue; }
        let (_, used) = bwrite(cx, 3, len, cap);
        bwrite(cx, 3 + used, len - used.min(len), cap);
        bwrite(cx, 0, 0, 64);
        cx.op("canproceed");
        cx.op("proceed");
    }
    // random sequences
    let n = if cx.thorough { 6000 } else { 600 };
    for _ in 0..n {
        let mut r = cx.case("rnd");
        let despite = r.chance(1, 6);
        let m = if despite { "GET" } else { *r.pick(&["POST", "PUT", "PATCH"]) };
        if !to_send_body(cx, m, "HTTP/1.1", None, despite) { continue; }
        let steps = r.range(1, 12);
        let mut seed = 0usize;
        for _ in 0..steps {
            match r.below(10) {
                0 => { cx.op("canproceed"); }
                1 => { bwrite(cx, 0, 0, *r.pick(&[0usize, 1, 4, 5, 6, 12, 100])); }
                2 => { cx.op(&format!("maxin {}", r.below(400))); }
                3 => { cx.op("chunked?"); }
                _ => {
                    let len = if r.chance(1, 10) { r.range(100, 12000) } else { r.range(1, 40) };
                    let cap = match r.below(6) { 0 => r.below(13), 1 => len + r.below(12), 2 => r.range(6, 30), 3 => len + 5 + r.below(4), _ => r.range(0, 200) };
                    let (_, used) = bwrite(cx, seed, len, cap);
                    seed += used;
                }
            }
        }
        bwrite(cx, 0, 0, 64);
        cx.op("canproceed");
        cx.op("proceed");
    }
    // the size ladder: input length with room to spare, output space with input to spare, both equal
    for l in super::ladder(cx.thorough, 131072) {
        cx.case("ladder");
        if !to_send_body(cx, "POST", "HTTP/1.1", None, false) { continue; }
        bwrite(cx, l, l, l + 200);
        bwrite(cx, l + 1, 200000, l);
        bwrite(cx, l + 2, l, l);
        bwrite(cx, 0, 0, 64);
        cx.op("canproceed");
        cx.op("proceed");
    }
    // the single-call API: body data offered to the very call that completes the head, into outputs around one
    // full chunk plus the head; then the rest of the body and the end
    for cap in [64usize, 1024, 10248, 10250, 10280, 10288, 10320, 10400, 20600] {
        for input in [5usize, 10240, 10300] {
            cx.case("callhead");
            if cx.rec.new_call("body", "POST HTTP/1.1 http://a.test/p 1 x-trace 616263") != "ok" { continue; }
            let data = pat(9, input);
            let mut off = 0;
            for _ in 0..60 {
                let res = cx.op(&format!("cbwrite {} {}", hx(&data[off..]), cap));
                let p: Vec<&str> = res.split(' ').collect();
                if p[0] != "bytes" { break; }
                let u: usize = p[1].parse().unwrap_or(0);
                off += u;
                if off >= data.len() { break; }
                if u == 0 && p[2] == "-" { break; }
            }
            cx.op("cfinished");
            cx.op("cbwrite - 64");
            cx.op("cfinished");
            cx.op("cinto");
        }
    }
}

pub fn c04(cx: &mut Ctx) {
    // exhaustive: N 0..=12, two ops each from a small menu
    for n in 0..=10u64 {
        for i1 in 0..=(n as usize + 2) {
            for c1 in [0usize, 1, 3, 12, 40] {
                for second in 0..4 {
                    cx.case("ex");
                    if !to_send_body(cx, "POST", "HTTP/1.1", Some(n), false) { continue; }
                    cx.op("canproceed");
                    let (_, used) = bwrite(cx, 0, i1, c1);
                    cx.op("canproceed");
                    let left = (n as usize).saturating_sub(used);
                    match second {
                        0 => { bwrite(cx, used, left, 64); }
                        1 => { bwrite(cx, used, left + 1, 64); }
                        2 => { cx.op(&format!("direct {}", left)); }
                        _ => { cx.op(&format!("direct {}", left + 1)); }
                    }
                    cx.op("canproceed");
                    bwrite(cx, 0, 0, 8);
                    cx.op("canproceed");
                    bwrite(cx, 0, 1, 8);
                    cx.op("direct 0");
                    cx.op("direct 1");
                    cx.op("maxin 77");
                    cx.op("chunked?");
                    cx.op("proceed");
                }
            }
        }
    }
    // the Content-Length arrives through Flow::header in Prepare (not on the request itself); also on a flow
    // created by a redirect
    for n in [0usize, 1, 3, 7] {
        for (kind, m) in [(0, "POST"), (0, "PUT"), (1, "GET"), (2, "POST")] {
            for c1 in [0usize, 2, 64] {
                cx.case("hdrcl");
                if kind == 2 {
                    cx.rec.new_flow("GET HTTP/1.1 http://a.test/p 1 x-a 31");
                    cx.op("proceed"); cx.op("write 4096"); cx.op("proceed");
                    cx.op(&format!("resp {}", hx(b"HTTP/1.1 302 Found\r\nLocation: /n\r\nContent-Length: 0\r\n\r\n")));
                    cx.op("proceed");
                    if cx.rec.state() != "redirect" { continue; }
                    cx.op("follow never");
                    if cx.rec.state() != "prepare" { continue; }
                    cx.op("despite");
                } else {
                    cx.rec.new_flow(&format!("{} HTTP/1.1 http://a.test/p 0", m));
                    if kind == 1 { cx.op("despite"); }
                }
                cx.op(&format!("hdr content-length {}", hx(n.to_string().as_bytes())));
                cx.op("proceed"); cx.op("write 4096"); cx.op("proceed");
                if cx.rec.state() != "sendBody" { continue; }
                cx.op("chunked?");
                cx.op("canproceed");
                let (_, used) = bwrite(cx, 0, n + 1, c1);       // one more than declared: refused whatever the space
                let (_, used2) = bwrite(cx, used, n, c1);
                cx.op("canproceed");
                let left = n - used - used2;
                cx.op(&format!("direct {}", left + 1));
                cx.op(&format!("direct {}", left));
                cx.op("canproceed");
                bwrite(cx, 0, 0, 8);
                cx.op("canproceed");
                cx.op("proceed");
            }
        }
    }
    // one write where input, output space and remaining length are all beyond one 10 KiB chunk
    for (n, len, cap) in [(20000usize, 20000usize, 20000usize), (70000, 30000, 65536), (10241, 10241, 10241), (40000, 40001, 50000)] {
        cx.case("big");
        if !to_send_body(cx, "PUT", "HTTP/1.1", Some(n as u64), false) { continue; }
        let (_, used) = bwrite(cx, 5, len, cap);
        let (_, used2) = bwrite(cx, 5 + used, n - used.min(n), 100000);
        cx.op("canproceed");
        let _ = used2;
        bwrite(cx, 0, 0, 8);
        cx.op("canproceed");
        cx.op("proceed");
    }
    // the Content-Length sits behind many other headers (65th, 70th, 130th field of the request)
    for fill in [63usize, 64, 65, 70, 129] {
        for api in 0..2 {
            cx.case("far");
            let mut hs: Vec<(String, Vec<u8>)> = (0..fill).map(|k| (format!("x-f{}", k), b"v".to_vec())).collect();
            hs.push(("content-length".into(), b"6".to_vec()));
            let hr: Vec<(&str, &[u8])> = hs.iter().map(|(k, v)| (k.as_str(), v.as_slice())).collect();
            let args = format!("POST HTTP/1.1 http://a.test/p {}", super::hdrs(&hr));
            if api == 0 {
                if cx.rec.new_flow(&args) != "ok" { continue; }
                cx.op("proceed"); cx.op("write 100000"); cx.op("proceed");
                if cx.rec.state() != "sendBody" { continue; }
                cx.op("chunked?");
                bwrite(cx, 0, 7, 64);          // one more than declared: refused
                bwrite(cx, 0, 4, 64);
                cx.op("direct 3");
                cx.op("direct 2");
                cx.op("canproceed");
                bwrite(cx, 0, 0, 8);
                cx.op("canproceed");
                cx.op("proceed");
            } else {
                if cx.rec.new_call("body", &args) != "ok" { continue; }
                cx.op("cbwrite - 100000");
                cx.op(&format!("cbwrite {} 64", hx(b"abcdefg")));
                cx.op(&format!("cbwrite {} 64", hx(b"abcdef")));
                cx.op("cfinished");
                cx.op("cbwrite - 8");
                cx.op("cfinished");
                cx.op("cinto");
            }
        }
    }
    // the single-call API: is_finished() / into_receive() against the same accounting
    for n in [0usize, 1, 3, 7, 70000] {
        for k in [0usize, 1, 3, 7] {
            if k > n { continue; }
            for overshoot in [false, true] {
                cx.case("callinto");
                if cx.rec.new_call("body", &format!("POST HTTP/1.1 http://a.test/p {}", super::hdrs(&[("content-length", n.to_string().as_bytes())]))) != "ok" { continue; }
                cx.op("cfinished");
                cx.op("cbwrite - 4096");
                cx.op("cfinished");
                if k > 0 { cx.op(&format!("cbwrite {} 64", hx(&vec![b'q'; k]))); }
                if overshoot { cx.op(&format!("cbwrite {} 64", hx(&vec![b'z'; n - k + 1]))); }
                cx.op("cfinished");
                if k == n { cx.op("cbwrite - 8"); cx.op("cfinished"); }
                cx.op("cinto");
            }
        }
    }
    // large N
    for n in [255u64, 256, 65535, 65536, 70000, 4294967295, 4294967297, 18446744073709551615] {
        for _ in 0..4 {
            let mut r = cx.case("large");
            if !to_send_body(cx, "PUT", "HTTP/1.1", Some(n), false) { continue; }
            let mut acc: u64 = 0;
            for _ in 0..r.range(1, 8) {
                match r.below(4) {
                    0 => { let d = r.below(5000) as u64; let res = cx.op(&format!("direct {}", d)); if res == "unit" { acc += d; } }
                    1 => { cx.op("canproceed"); }
                    _ => { let len = r.range(0, 3000); let cap = r.range(0, 4000); let (_, u) = bwrite(cx, acc as usize % 251, len, cap); acc += u as u64; }
                }
            }
            if n - acc < 80000 {
                let left = (n - acc) as usize;
                bwrite(cx, 0, left + 1, left + 10);
                bwrite(cx, 0, left, left + 10);
                cx.op("canproceed");
            }
            cx.op("proceed");
        }
    }
    // random
    let cnt = if cx.thorough { 8000 } else { 800 };
    for _ in 0..cnt {
        let mut r = cx.case("rnd");
        let n = if r.chance(1, 5) { r.range(0, 70000) as u64 } else { r.range(0, 64) as u64 };
        if !to_send_body(cx, *r.pick(&["POST", "PUT", "PATCH"]), *r.pick(&["HTTP/1.1", "HTTP/1.0", "HTTP/1.1"]), Some(n), false) { continue; }
        let mut acc = 0u64;
        for _ in 0..r.range(1, 10) {
            let left = n - acc;
            match r.below(8) {
                0 => { cx.op("canproceed"); }
                1 => { let d = if r.chance(1, 4) { left + 1 } else { r.below(left as usize + 1) as u64 }; if cx.op(&format!("direct {}", d)) == "unit" { acc += d; } }
                2 => { bwrite(cx, 0, 0, r.below(4)); }
                _ => {
                    let len = match r.below(5) { 0 => left as usize, 1 => left as usize + 1, _ => r.below(left.min(2000) as usize + 1) };
                    let cap = match r.below(4) { 0 => 0, 1 => len, 2 => r.below(len + 1), _ => len + r.below(10) };
                    let (_, u) = bwrite(cx, acc as usize % 251, len, cap);
                    acc += u as u64;
                }
            }
        }
        cx.op("canproceed");
        cx.op("proceed");
    }
    // amounts near the top of the number range against a declared length near it: accounted or refused, never
    // wrapped around
    for (first, amount) in [(1usize, usize::MAX), (0, usize::MAX), (20, usize::MAX - 10), (1, usize::MAX - 1)] {
        for n in [u64::MAX, u64::MAX - 5, 1u64 << 63] {
            cx.case("huge");
            if !to_send_body(cx, "PUT", "HTTP/1.1", Some(n), false) { continue; }
            if first > 0 { bwrite(cx, 0, first, 64); }
            cx.op(&format!("direct {}", amount));
            cx.op("canproceed");
            cx.op(&format!("direct {}", amount));
            cx.op("canproceed");
            bwrite(cx, 3, 20, 64);
            cx.op("canproceed");
            bwrite(cx, 0, 0, 8);
            cx.op("canproceed");
        }
    }
    // declared lengths just beyond u64 (and far beyond): never a body of some wrapped-around length
    for cl in ["18446744073709551616", "18446744073709551617", "18446744073709551618", "18446744073709551619", "36893488147419103232", "99999999999999999999", "184467440737095516150"] {
        for api in 0..2 {
            cx.case("toobig");
            let args = format!("POST HTTP/1.1 http://a.test/p {}", super::hdrs(&[("content-length", cl.as_bytes())]));
            if api == 0 {
                if cx.rec.new_flow(&args) != "ok" { continue; }
                cx.op("proceed"); cx.op("write 4096"); cx.op("canproceed"); cx.op("proceed");
                if cx.rec.state() == "sendBody" { bwrite(cx, 0, 2, 64); cx.op("canproceed"); bwrite(cx, 0, 0, 8); cx.op("canproceed"); }
            } else {
                if cx.rec.new_call("body", &args) != "ok" { continue; }
                cx.op("cbwrite - 4096");
                cx.op(&format!("cbwrite {} 64", hx(b"ab")));
                cx.op("cfinished");
            }
        }
    }
    // the size ladder: a declared length of every rung, written in one call into exactly that much space, one byte
    // short, and one byte over
    for l in super::ladder(cx.thorough, 131072) {
        for api in 0..2 {
            cx.case("ladder");
            if api == 0 {
                if !to_send_body(cx, "PUT", "HTTP/1.1", Some(l as u64), false) { continue; }
                bwrite(cx, 1, l + 1, l + 1);
                let (_, u) = bwrite(cx, 1, l, l.saturating_sub(1));
                bwrite(cx, 1 + u, l - u.min(l), l + 5);
                cx.op("canproceed");
                bwrite(cx, 0, 0, 8);
                cx.op("canproceed");
                cx.op("proceed");
            } else if l <= 40000 {
                if cx.rec.new_call("body", &format!("PUT HTTP/1.1 http://a.test/p {}", super::hdrs(&[("content-length", l.to_string().as_bytes())]))) != "ok" { continue; }
                cx.op("cbwrite - 4096");
                let data = pat(3, l);
                cx.op(&format!("cbwrite {} {}", hx(&data), l + 1));
                cx.op("cfinished");
                cx.op("cbwrite - 8");
                cx.op("cfinished");
                cx.op("cinto");
            }
        }
    }
}

pub fn c18(cx: &mut Ctx) {
    // every n in the small range, then a stride (quick) or every n (thorough) up to 3*10248+64
    let top = 3 * 10248 + 64;
    let mut ns: Vec<usize> = (0..=700).collect();
    let step = if cx.thorough { 1 } else { 41 };
    let mut n = 701;
    while n <= top {
        ns.push(n);
        n += step;
    }
    for k in 1..=3usize {
        for d in 0..=40usize {
            ns.push(k * 10248 - 20 + d);
        }
    }
    for b in [4096usize + 8, 65536 + 9, 1 << 20, (1 << 20) + 12345] {
        ns.push(b);
    }
    ns.sort();
    ns.dedup();
    // one flow serves a batch of n (the writer stays usable after each write)
    for batch in ns.chunks(32) {
        cx.case("chunked");
        if !to_send_body(cx, "POST", "HTTP/1.1", None, false) { continue; }
        for &n in batch {
            let res = cx.op(&format!("maxin {}", n));
            let m: usize = res.split(' ').nth(1).unwrap_or("0").parse().unwrap_or(0);
            if m > 0 {
                bwrite(cx, n, m, n);
            }
        }
    }
    // an HTTP/1.0 request without Content-Length is framed chunked as well: the advertised size must follow
    for batch in [[0usize, 1, 5, 6, 8, 9, 10, 21, 22, 100, 263, 4104, 10248, 10249, 10300, 20505]].iter() {
        cx.case("v10");
        if !to_send_body(cx, "POST", "HTTP/1.0", None, false) { continue; }
        cx.op("chunked?");
        for &n in batch.iter() {
            let res = cx.op(&format!("maxin {}", n));
            let m: usize = res.split(' ').nth(1).unwrap_or("0").parse().unwrap_or(0);
            if m > 0 { bwrite(cx, n, m, n); }
        }
    }
    // a body sent despite the method, either version, no framing header of the caller's: chunked by default
    for (m, ver) in [("GET", "HTTP/1.0"), ("HEAD", "HTTP/1.0"), ("GET", "HTTP/1.1"), ("DELETE", "HTTP/1.1"), ("OPTIONS", "HTTP/1.1")] {
        cx.case("despite");
        if !to_send_body(cx, m, ver, None, true) { continue; }
        cx.op("chunked?");
        for n in [0usize, 5, 6, 9, 10, 21, 100, 263, 4104, 10248, 10300] {
            let res = cx.op(&format!("maxin {}", n));
            let mx: usize = res.split(' ').nth(1).unwrap_or("0").parse().unwrap_or(0);
            if mx > 0 { bwrite(cx, n, mx, n); }
        }
    }
    // framing chosen by the caller's headers, in the spellings the request analysis accepts
    let variants: Vec<Vec<(&str, &[u8])>> = vec![
        vec![("transfer-encoding", b"chunked")],
        vec![("transfer-encoding", b"Chunked")],
        vec![("transfer-encoding", b"CHUNKED"), ("content-length", b"5")],
        vec![("content-length", b"100000"), ("transfer-encoding", b"chunKed")],
        vec![("transfer-encoding", b"gzip"), ("content-length", b"100000")],
        vec![("content-length", b"100000")],
    ];
    for (vi, v) in variants.iter().enumerate() {
        for despite in [false, true] {
            cx.case("hdr");
            let m = if despite { "GET" } else { "POST" };
            cx.rec.new_flow(&format!("{} HTTP/1.1 http://a.test/p {}", m, super::hdrs(v)));
            if despite { cx.op("despite"); }
            cx.op("proceed");
            cx.op("write 4096");
            cx.op("proceed");
            if cx.rec.state() != "sendBody" { continue; }
            cx.op("chunked?");
            for n in [0usize, 1, 5, 6, 8, 9, 10, 21, 22, 100, 263, 4104, 10248, 10249, 10300 + vi] {
                let res = cx.op(&format!("maxin {}", n));
                let m: usize = res.split(' ').nth(1).unwrap_or("0").parse().unwrap_or(0);
                if m > 0 { bwrite(cx, n, m, n); }
            }
        }
    }
    // the same n again and again on one flow, with other writes in between: a short chunk into n, a multi-chunk
    // write, an end-of-body attempt that did not fit (the body stays open) — the advertised size still holds
    for n in [9usize, 30, 100, 263, 264, 1000, 4104, 10300, 20600] {
        for prelude in 0..5usize {
            cx.case("again");
            if !to_send_body(cx, "POST", "HTTP/1.1", None, false) { continue; }
            match prelude {
                0 => { bwrite(cx, 1, 10.min(n - 8), n); }
                1 => { bwrite(cx, 1, 1, n); bwrite(cx, 2, 3, n); }
                2 => { bwrite(cx, 0, 0, 3); cx.op("canproceed"); }
                3 => { bwrite(cx, 0, 0, 4); bwrite(cx, 5, 2, n); bwrite(cx, 0, 0, 0); }
                _ => { let res = cx.op(&format!("maxin {}", n)); let m: usize = res.split(' ').nth(1).unwrap_or("0").parse().unwrap_or(0); if m > 1 { bwrite(cx, 7, m - 1, n); } }
            }
            for _ in 0..2 {
                let res = cx.op(&format!("maxin {}", n));
                let m: usize = res.split(' ').nth(1).unwrap_or("0").parse().unwrap_or(0);
                if m > 0 { bwrite(cx, n, m, n); }
            }
            bwrite(cx, 0, 0, 64);
            cx.op("canproceed");
        }
    }
    for batch in ns.chunks(64) {
        cx.case("sized");
        if !to_send_body(cx, "POST", "HTTP/1.1", Some(u64::MAX), false) { continue; }
        for &n in batch {
            if n > 70000 { continue; }
            let res = cx.op(&format!("maxin {}", n));
            let m: usize = res.split(' ').nth(1).unwrap_or("0").parse().unwrap_or(0);
            bwrite(cx, n, m, n);
        }
    }
    // a direct-write report beyond what is left is refused and changes nothing: the advertised size still holds
    for (total, sent) in [(100usize, 0usize), (100, 40), (3000, 0), (10, 4)] {
        cx.case("refused");
        if !to_send_body(cx, "POST", "HTTP/1.1", Some(total as u64), false) { continue; }
        if sent > 0 { bwrite(cx, 1, sent, sent); }
        cx.op(&format!("direct {}", total - sent + 1));
        cx.op("canproceed");
        let left = total - sent;
        for n in [1usize, left / 2, left - left / 2 - 1] {
            if n == 0 { continue; }
            let res = cx.op(&format!("maxin {}", n));
            let m: usize = res.split(' ').nth(1).unwrap_or("0").parse().unwrap_or(0);
            bwrite(cx, n, m, n);
        }
        cx.op("canproceed");
    }
    // the size ladder over n, chunked and sized, on one flow each
    for sized in [false, true] {
        cx.case("ladder");
        if !to_send_body(cx, "POST", "HTTP/1.1", if sized { Some(u64::MAX) } else { None }, false) { continue; }
        for n in super::ladder(cx.thorough, 131072) {
            let res = cx.op(&format!("maxin {}", n));
            let m: usize = res.split(' ').nth(1).unwrap_or("0").parse().unwrap_or(0);
            if m > 0 { bwrite(cx, n, m, n); }
        }
    }
}

pub fn c19(cx: &mut Ctx) {
    // (cap, input) grid: cap 6..=capmax, input 1..cap+40 ; pairs (input, input+1) give monotonicity
    let capmax = if cx.thorough { 1200 } else { 140 };
    for cap in 0..=capmax {
        cx.case("grid");
        if !to_send_body(cx, "POST", "HTTP/1.1", None, false) { continue; }
        cx.op(&format!("maxin {}", cap));
        let top = cap + 24;
        let mut i = 1;
        while i <= top {
            bwrite(cx, i, i, cap);
            i += if cx.thorough || cap < 60 { 1 } else { 3 };
        }
    }
    // a body sent despite the method (no framing header of the caller's), either version: the same progress
    for (m, ver) in [("GET", "HTTP/1.0"), ("HEAD", "HTTP/1.0"), ("GET", "HTTP/1.1"), ("DELETE", "HTTP/1.1")] {
        for cap in [6usize, 7, 9, 21, 64, 300] {
            cx.case("despite");
            if !to_send_body(cx, m, ver, None, true) { continue; }
            cx.op("chunked?");
            for i in [1usize, 2, cap, cap + 10] { bwrite(cx, i, i, cap); }
            bwrite(cx, 0, 0, cap);
            cx.op("canproceed");
        }
    }
    // caps around 16^k+5 and multiples of the chunk size, inputs to several chunks
    let caps: Vec<usize> = vec![20, 21, 22, 23, 260, 261, 262, 263, 4100, 4101, 4102, 4103, 4104, 10240, 10245, 10246, 10247, 10248, 10249, 10250, 10253, 10254, 20480, 20495, 20496, 20497, 11000, 65541, 65542, 65545];
    for cap in caps {
        cx.case("bound");
        if !to_send_body(cx, "POST", "HTTP/1.1", None, false) { continue; }
        let res = cx.op(&format!("maxin {}", cap));
        let m: usize = res.split(' ').nth(1).unwrap_or("0").parse().unwrap_or(0);
        for input in [1usize, m.saturating_sub(1).max(1), m.max(1), m + 1, m + 2, cap, cap + 1, 2 * cap, 10240, 10241, 30000, 80000] {
            bwrite(cx, input, input, cap);
        }
    }
    // the zero-copy path mixed with write(): part of a sized body is reported as written directly, the rest goes
    // through write() in a loop with a fixed buffer
    for (total, direct) in [(100usize, 60usize), (100, 50), (100, 49), (100, 99), (10, 5), (3, 2), (70001, 35001), (70001, 1), (5000, 4999)] {
        for cap in [1usize, 7, 64, 100000] {
            cx.case("mixed");
            if !to_send_body(cx, "POST", "HTTP/1.1", Some(total as u64), false) { continue; }
            let first = if cap == 7 { 1 } else { 0 };
            let mut off = 0;
            if first > 0 { let (_, u) = bwrite(cx, 0, first, cap); off += u; }
            // a report beyond what is left is refused and changes nothing
            if cap != 64 { cx.op(&format!("direct {}", total - off + 1)); cx.op("canproceed"); }
            if cx.op(&format!("direct {}", direct - first)) == "unit" { off += direct - first; }
            cx.op("canproceed");
            if cap == 1 { cx.op(&format!("direct {}", total - off + 1)); cx.op("canproceed"); }
            let mut calls = 0;
            while off < total && calls <= 200 {
                let (ok, used) = bwrite(cx, off, total - off, cap.max((total - direct) / 100));
                if !ok || used == 0 { break; }
                off += used;
                calls += 1;
            }
            bwrite(cx, 0, 0, 8);
            cx.op("canproceed");
            cx.op("proceed");
        }
    }
    // a chunked body whose end did not fit the output: the body is still open and takes more content
    for room in 0..5usize {
        cx.case("openend");
        if !to_send_body(cx, "POST", "HTTP/1.1", None, false) { continue; }
        bwrite(cx, 1, 4, 50);
        bwrite(cx, 0, 0, room);
        cx.op("canproceed");
        bwrite(cx, 5, 12, 50);
        bwrite(cx, 0, 0, 5);
        cx.op("canproceed");
    }
    // whole-body loops with a fixed buffer size (chunked and sized)
    let loops = if cx.thorough { 400 } else { 60 };
    for _ in 0..loops {
        let mut r = cx.case("loop");
        let sized = r.chance(1, 3);
        let total = r.range(1, 5000);
        let cap = if sized { r.range(1, 300) } else { *r.pick(&[6usize, 7, 8, 20, 21, 22, 37, 100, 262, 263, 1000, 4103]) };
        if !to_send_body(cx, "POST", "HTTP/1.1", if sized { Some(total as u64) } else { None }, false) { continue; }
        let mut off = 0;
        let mut calls = 0;
        while off < total && calls <= total {
            let (ok, used) = bwrite(cx, off, total - off, cap);
            if !ok || used == 0 { break; }
            off += used;
            calls += 1;
        }
        cx.meta(&format!("loop total={} cap={} done={} calls={}", total, cap, off, calls));
        bwrite(cx, 0, 0, cap.max(5));
        cx.op("canproceed");
    }
    // the size ladder over the output space, with inputs just below, at and above what fits
    for cap in super::ladder(cx.thorough, 131072) {
        cx.case("ladder");
        if !to_send_body(cx, "POST", "HTTP/1.1", None, false) { continue; }
        let res = cx.op(&format!("maxin {}", cap));
        let m: usize = res.split(' ').nth(1).unwrap_or("0").parse().unwrap_or(0);
        for input in [1usize, m.saturating_sub(1).max(1), m.max(1), m + 1, cap + 1, 2 * cap + 7] {
            bwrite(cx, input, input, cap);
        }
    }
    // the single-call API: body writes into the smallest outputs, and with head and body sharing one buffer
    for cap in [6usize, 7, 8, 9, 12, 21, 64] {
        for input in [1usize, 3, 16, 300] {
            cx.case("callsmall");
            if cx.rec.new_call("body", "POST HTTP/1.1 http://a.test/p 0") != "ok" { continue; }
            cx.op("cbwrite - 4096");
            let data = pat(3, input);
            let mut off = 0;
            for _ in 0..400 {
                if off >= data.len() { break; }
                let res = cx.op(&format!("cbwrite {} {}", hx(&data[off..]), cap));
                let p: Vec<&str> = res.split(' ').collect();
                if p[0] != "bytes" { break; }
                let u: usize = p[1].parse().unwrap_or(0);
                if u == 0 { break; }
                off += u;
            }
            cx.meta(&format!("loop total={} cap={} done={} calls=0", input, cap, off));
            cx.op("cbwrite - 8");
            cx.op("cfinished");
        }
    }
}
