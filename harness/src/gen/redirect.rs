use super::Ctx;
pub fn c13(_cx: &mut Ctx) {}
pub fn c14(_cx: &mut Ctx) {}
pub fn c15(_cx: &mut Ctx) {}
