//! Redirect chains: C13 (credentials / stale framing), C14 (target resolution), C15 (method table).
use super::Ctx;
use crate::exec::hx;
use crate::rng::Rng;

const BASES: [&str; 10] = ["http://a.test/", "http://a.test/dir/sub/page?x=1", "https://a.test/start/index.html", "http://a.test:8080/p/q", "https://b.test:443/d/", "http://A.test:80/Up/Case", "http://b.test", "https://a.test:8443/x/y/z?k=v", "http://a.test/a/b/c/d;p?q", "http://b.test/only?"];

const LOCS_IN_CLASS: [&str; 40] = [
    "/next", "/a/b/../c/./d", "http://b.test/other?x=1", "https://a.test/s", "https://a.test:443/t", "http://a.test:80/u", "//b.test/landing/page?q=1",
    "//A.TEST:8080/w", "../up", "../../two/up", "./same", "x/y", "g", "g/", "?only=query", "", "#frag", "/p#frag", "../x#f", "http://a.test", "https://b.test:8443/p?x#y",
    "..", ".", "./", "../", "g?y", "g?y#s", ";x", "g;x", "/./g", "/../g", "g.", ".g", "g..", "..g", "./../g", "g/./h", "g/../h", "http://b.test:8080/?a=b", "https://a.test/%7Euser/",
];

const LOCS_OTHER: [&str; 14] = ["http://", "http://a.test:99999/", "/a b", "\\x", "http:///g", "/%2e%2e/x", "ftp://a.test/f", "mailto:x@y", "http:g", "http://user@a.test/", "http://[::1]/", "http://a.test:/", "  /padded  ", "http://9999/"];

pub struct Hop {
    pub status: u16,
    pub locations: Vec<Vec<u8>>,
    pub body: bool,
}

fn gen_hop(r: &mut Rng, focus: u8) -> Hop {
    let status = match focus {
        15 => r.range(300, 399) as u16,
        _ => *r.pick(&[301u16, 302, 303, 307, 308, 300, 305, 399, 301, 302]),
    };
    let mut locations = vec![];
    let n = match r.below(8) { 0 => 0, 1 | 2 => 2, _ => 1 };
    for _ in 0..n {
        let l: Vec<u8> = match r.below(12) {
            0 => LOCS_OTHER[r.below(LOCS_OTHER.len())].as_bytes().to_vec(),
            1 => if r.chance(1, 2) { b"/caf\xe9".to_vec() } else { b"/x\x80y".to_vec() },
            _ => LOCS_IN_CLASS[r.below(LOCS_IN_CLASS.len())].as_bytes().to_vec(),
        };
        locations.push(l);
    }
    Hop { status, locations, body: r.chance(1, 3) }
}

fn hop_head(h: &Hop) -> Vec<u8> {
    let mut s = format!("HTTP/1.1 {} R\r\n", h.status).into_bytes();
    for (i, l) in h.locations.iter().enumerate() {
        s.extend_from_slice(if i % 2 == 0 { b"Location: " } else { b"location: " });
        s.extend_from_slice(l);
        s.extend_from_slice(b"\r\n");
        if i == 0 { s.extend_from_slice(b"X-Between: 1\r\n"); }
    }
    if h.body { s.extend_from_slice(b"Content-Length: 4\r\n\r\nbody"); } else { s.extend_from_slice(b"Content-Length: 0\r\n\r\n"); }
    s
}

/// drive the flow (in prepare) through one exchange: head on the wire, body if any, the redirect response
/// (with body when it has one) into the redirect state. Returns false when it does not get there.
fn exchange_to_redirect(cx: &mut Ctx, h: &Hop) -> bool {
    cx.op("uri?");
    cx.op("method?");
    cx.op("proceed");
    cx.op("write 65536");
    let res = cx.op("proceed");
    if res.starts_with("state await100") { cx.op("proceed"); }
    if cx.rec.state() == "sendBody" {
        if cx.op("chunked?") == "bool true" { cx.op("bwrite 6162 100"); cx.op("bwrite - 100"); } else {
            for n in [5usize, 0] { if cx.op("canproceed") == "bool true" { break; } cx.op(&format!("direct {}", n)); }
        }
        cx.op("proceed");
    }
    if cx.rec.state() != "recvResponse" { return false; }
    let head = hop_head(h);
    let res = cx.op(&format!("resp {}", hx(&head)));
    let p: Vec<&str> = res.split(' ').collect();
    if p[0] != "resp" { return false; }
    let used: usize = p[1].parse().unwrap_or(0);
    cx.op("proceed");
    if cx.rec.state() == "recvBody" {
        cx.op(&format!("bread {} 100", hx(&head[used..])));
        cx.op("proceed");
    }
    if cx.rec.state() != "redirect" { return false; }
    cx.op("status");
    true
}

fn chain(cx: &mut Ctx, r: &mut Rng, focus: u8) {
    let base = *r.pick(&BASES);
    let method = match focus {
        15 => *r.pick(&super::flowgen::METHODS),
        _ => *r.pick(&["GET", "GET", "HEAD", "POST", "PUT", "DELETE", "OPTIONS"]),
    };
    let mut hs: Vec<(&str, &[u8])> = vec![("x-keep", b"1")];
    if r.chance(3, 4) { hs.push(("authorization", b"Basic c2VjcmV0")); }
    if r.chance(3, 4) { hs.push(("cookie", b"sid=abc")); }
    if matches!(method, "POST" | "PUT" | "PATCH") && r.chance(1, 2) { hs.push(("content-length", b"5")); }
    if r.chance(1, 6) { hs.push(("host", b"explicit.test")); }
    if r.chance(1, 8) { hs.push(("expect", b"100-continue")); }
    if r.chance(1, 3) { hs.push(("cookie", b"second=1")); }
    if cx.rec.new_flow(&format!("{} HTTP/1.1 {} {}", method, base, super::hdrs(&hs))) != "ok" { return; }
    let hops = r.range(1, 4);
    for _ in 0..hops {
        let h = gen_hop(r, focus);
        if !exchange_to_redirect(cx, &h) { return; }
        cx.op("close?");
        let policy = *r.pick(&["never", "samehost"]);
        let res = cx.op(&format!("follow {}", policy));
        if !res.starts_with("flow ") { return; }
    }
    // the last flow: look at it and at its head on the wire
    cx.op("uri?");
    cx.op("method?");
    cx.op("proceed");
    cx.op("write 65536");
}

fn chains(cx: &mut Ctx, focus: u8, n: usize) {
    for _ in 0..n {
        let mut r = cx.case("chain");
        chain(cx, &mut r, focus);
    }
}

pub fn c13(cx: &mut Ctx) {
    // leave-and-return chains over hosts and schemes, both policies (exhaustive over a small menu)
    let origs = ["http://a.test/o", "https://a.test/o", "http://a.test:8080/o", "http://A.test/o"];
    let targets = ["http://a.test/t", "https://a.test/t", "http://b.test/t", "https://b.test/t", "http://a.test:8080/t", "//a.test/t2", "/same-origin", "../rel", "//b.test/x", "http://A.TEST/t"];
    for o in origs {
        for t1 in targets {
            for t2 in ["", "/second", "http://a.test/back", "https://a.test/back", "http://b.test/stay"] {
                for policy in ["never", "samehost"] {
                    for st in [302u16, 307] {
                        cx.case("auth");
                        if cx.rec.new_flow(&format!("GET HTTP/1.1 {} {}", o, super::hdrs(&[("authorization", b"Basic c2VjcmV0"), ("cookie", b"sid=abc"), ("x-keep", b"1")]))) != "ok" { continue; }
                        let mut ok = true;
                        for t in [t1, t2] {
                            if t.is_empty() { continue; }
                            let h = Hop { status: st, locations: vec![t.as_bytes().to_vec()], body: false };
                            if !exchange_to_redirect(cx, &h) { ok = false; break; }
                            if !cx.op(&format!("follow {}", policy)).starts_with("flow ") { ok = false; break; }
                        }
                        if !ok { continue; }
                        cx.op("uri?");
                        cx.op("proceed");
                        cx.op("write 65536");
                    }
                }
            }
        }
    }
    // the accessor headers_map() on the flow made for a redirect: the same request the wire will carry
    for t in ["http://b.test/t", "/same", "https://a.test/s"] {
        for policy in ["never", "samehost"] {
            for add in [false, true] {
                cx.case("hmap");
                if cx.rec.new_flow(&format!("POST HTTP/1.1 http://a.test/o {}", super::hdrs(&[("authorization", b"Basic c2VjcmV0"), ("cookie", b"sid=abc"), ("cookie", b"second=1"), ("content-length", b"5"), ("x-keep", b"1")]))) != "ok" { continue; }
                let h = Hop { status: 302, locations: vec![t.as_bytes().to_vec()], body: false };
                if !exchange_to_redirect(cx, &h) { continue; }
                if !cx.op(&format!("follow {}", policy)).starts_with("flow ") { continue; }
                if add { cx.op(&format!("hdr cookie {}", hx(b"fresh=1"))); cx.op(&format!("hdr authorization {}", hx(b"Bearer new"))); cx.op(&format!("hdr x-added {}", hx(b"v"))); }
                cx.op("proceed");
                cx.op("hmap");
                cx.op("write 65536");
                cx.op("hmap");
            }
        }
    }
    // hosts that are IP literals (no "domain"): two different addresses are two different hosts
    for o in ["http://10.0.0.5/private", "http://[::1]/o", "https://192.168.1.1:8443/o"] {
        for t in ["http://169.254.169.254/latest/meta-data", "http://10.0.0.5/other", "//10.0.0.6/y", "http://[::2]/x", "http://[::1]:81/x", "https://192.168.1.1/s", "http://a.test/named", "/same"] {
            for policy in ["never", "samehost"] {
                cx.case("iphost");
                if cx.rec.new_flow(&format!("GET HTTP/1.1 {} {}", o, super::hdrs(&[("authorization", b"Basic c2VjcmV0"), ("cookie", b"sid=abc"), ("x-keep", b"1")]))) != "ok" { continue; }
                let h = Hop { status: 302, locations: vec![t.as_bytes().to_vec()], body: false };
                if !exchange_to_redirect(cx, &h) { continue; }
                if !cx.op(&format!("follow {}", policy)).starts_with("flow ") { continue; }
                cx.op("uri?");
                cx.op("proceed");
                cx.op("write 65536");
            }
        }
    }
    // the caller gives the redirected flow fresh credentials / cookies of its own: the inherited ones stay suppressed
    for t1 in ["http://b.test/t", "https://a.test/t", "/same"] {
        for policy in ["never", "samehost"] {
            for depth in [1usize, 2] {
                for which in 0..4usize {
                    cx.case("readd");
                    if cx.rec.new_flow(&format!("POST HTTP/1.1 http://a.test/o {}", super::hdrs(&[("authorization", b"Basic b2xk"), ("cookie", b"a_session=old"), ("content-length", b"5"), ("x-keep", b"1")]))) != "ok" { continue; }
                    let mut ok = true;
                    for d in 0..depth {
                        let t = if d == 0 { t1 } else { "/second" };
                        cx.op("proceed"); cx.op("write 65536"); cx.op("proceed");
                        if cx.rec.state() == "sendBody" { cx.op("bwrite 6162636465 100"); cx.op("proceed"); }
                        let head = format!("HTTP/1.1 303 R\r\nLocation: {}\r\nContent-Length: 0\r\n\r\n", t);
                        cx.op(&format!("resp {}", hx(head.as_bytes())));
                        cx.op("proceed");
                        if cx.rec.state() != "redirect" { ok = false; break; }
                        if !cx.op(&format!("follow {}", policy)).starts_with("flow ") { ok = false; break; }
                    }
                    if !ok { continue; }
                    match which {
                        0 => { cx.op(&format!("hdr cookie {}", hx(b"b_session=new"))); }
                        1 => { cx.op(&format!("hdr authorization {}", hx(b"Basic bmV3"))); }
                        2 => { cx.op(&format!("hdr content-length {}", hx(b"3"))); cx.op("despite"); }
                        _ => { cx.op(&format!("hdr cookie {}", hx(b"c=1"))); cx.op(&format!("hdr authorization {}", hx(b"Bearer t"))); cx.op(&format!("hdr x-keep {}", hx(b"2"))); }
                    }
                    cx.op("proceed");
                    cx.op("write 65536");
                    cx.op("canproceed");
                }
            }
        }
    }
    // stale framing: body methods with Content-Length redirected to GET, incl. the Expect-refused path
    for m in ["POST", "PUT", "PATCH"] {
        for st in [301u16, 302, 303] {
            for expect in [false, true] {
                cx.case("stale");
                let mut hs: Vec<(&str, &[u8])> = vec![("content-length", b"5"), ("cookie", b"a=b")];
                if expect { hs.push(("expect", b"100-continue")); }
                if cx.rec.new_flow(&format!("{} HTTP/1.1 http://a.test/up {}", m, super::hdrs(&hs))) != "ok" { continue; }
                cx.op("proceed"); cx.op("write 65536"); cx.op("proceed");
                let head = format!("HTTP/1.1 {} R\r\nLocation: /done\r\nContent-Length: 0\r\n\r\n", st);
                if cx.rec.state() == "await100" {
                    cx.op(&format!("read100 {}", hx(head.as_bytes())));
                    cx.op("proceed");
                }
                if cx.rec.state() == "sendBody" { cx.op("bwrite 6162636465 100"); cx.op("proceed"); }
                cx.op(&format!("resp {}", hx(head.as_bytes())));
                cx.op("proceed");
                if cx.rec.state() != "redirect" { continue; }
                if !cx.op("follow never").starts_with("flow ") { continue; }
                cx.op("method?");
                cx.op("proceed");
                cx.op("write 65536");
                cx.op("canproceed");
            }
        }
    }
    let n = if cx.thorough { 8000 } else { 800 };
    chains(cx, 13, n);
    // the size ladder over the credentials themselves: Cookie / Authorization values of every length (and a long
    // ordinary field beside them), redirected to another host and within the host
    for l in super::ladder(cx.thorough, 65536) {
        let val: Vec<u8> = (0..l.max(1)).map(|i| b'a' + (i % 26) as u8).collect();
        for (ti, t) in ["http://b.test/t", "/same"].iter().enumerate() {
            cx.case("ladder");
            let hs: Vec<(&str, &[u8])> = if ti == 0 { vec![("authorization", &val), ("x-keep", &val), ("cookie", &val)] } else { vec![("cookie", b"a=1"), ("x-keep", b"1"), ("cookie", &val), ("authorization", &val)] };
            if cx.rec.new_flow(&format!("GET HTTP/1.1 http://a.test/o {}", super::hdrs(&hs))) != "ok" { continue; }
            let h = Hop { status: 302, locations: vec![t.as_bytes().to_vec()], body: false };
            cx.op("uri?"); cx.op("method?"); cx.op("proceed"); cx.op("write 300000"); cx.op("proceed");
            if cx.rec.state() != "recvResponse" { continue; }
            cx.op(&format!("resp {}", hx(&hop_head(&h))));
            cx.op("proceed");
            if cx.rec.state() != "redirect" { continue; }
            if !cx.op(&format!("follow {}", if l % 2 == 0 { "samehost" } else { "never" })).starts_with("flow ") { continue; }
            cx.op("uri?");
            cx.op("proceed");
            cx.op("write 300000");
            cx.op("canproceed");
        }
    }
}

pub fn c14(cx: &mut Ctx) {
    // the reference-resolution examples of RFC 3986 section 5.4 against its base URI
    let rfc: [&str; 40] = ["g", "./g", "g/", "/g", "//g", "?y", "g?y", "#s", "g#s", "g?y#s", ";x", "g;x", "g;x?y#s", "", ".", "./", "..", "../", "../g", "../..", "../../", "../../g",
        "../../../g", "../../../../g", "/./g", "/../g", "g.", ".g", "g..", "..g", "./../g", "./g/.", "g/./h", "g/../h", "g;x=1/./y", "g;x=1/../y", "g?y/./x", "g?y/../x", "g#s/./x", "g#s/../x"];
    for l in rfc {
        cx.case("rfc54");
        if cx.rec.new_flow("GET HTTP/1.1 http://a/b/c/d;p?q 0") != "ok" { continue; }
        let h = Hop { status: 302, locations: vec![l.as_bytes().to_vec()], body: false };
        if !exchange_to_redirect(cx, &h) { continue; }
        if cx.op("follow never").starts_with("flow ") { cx.op("uri?"); cx.op("proceed"); cx.op("write 65536"); }
    }
    // every base x every in-class location, one hop and a second relative hop (resolution against the
    // CURRENT uri, not the original)
    for (bi, base) in BASES.iter().enumerate() {
        for (li, l) in LOCS_IN_CLASS.iter().enumerate() {
            if !cx.thorough && (bi * 7 + li) % 3 != 0 { continue; }
            cx.case("grid");
            if cx.rec.new_flow(&format!("GET HTTP/1.1 {} 0", base)) != "ok" { continue; }
            let h = Hop { status: 301, locations: vec![l.as_bytes().to_vec()], body: false };
            if !exchange_to_redirect(cx, &h) { continue; }
            if !cx.op("follow never").starts_with("flow ") { continue; }
            let l2 = LOCS_IN_CLASS[(li * 5 + bi) % LOCS_IN_CLASS.len()];
            let h2 = Hop { status: 302, locations: vec![b"/ignored/first".to_vec(), l2.as_bytes().to_vec()], body: li % 2 == 0 };
            if !exchange_to_redirect(cx, &h2) { continue; }
            if cx.op("follow samehost").starts_with("flow ") { cx.op("uri?"); cx.op("proceed"); cx.op("write 65536"); }
        }
    }
    // malformed / out-of-class / missing / non-textual values
    for l in LOCS_OTHER {
        for base in ["http://a.test/x/y", "https://b.test:8443/"] {
            cx.case("other");
            if cx.rec.new_flow(&format!("GET HTTP/1.1 {} 0", base)) != "ok" { continue; }
            let h = Hop { status: 302, locations: vec![l.as_bytes().to_vec()], body: false };
            if !exchange_to_redirect(cx, &h) { continue; }
            if cx.op("follow never").starts_with("flow ") { cx.op("uri?"); cx.op("proceed"); cx.op("write 65536"); }
        }
    }
    // long Location values that are no text: bytes that are no UTF-8, UTF-8 beyond ASCII, with a multi-byte
    // character across every offset a bounded echo of the value might cut at (64, 128, 256, 512, 1024)
    {
        let mut longs: Vec<Vec<u8>> = vec![];
        for total in [64usize, 128, 256, 512, 1024] {
            for lead in 0..3usize {
                let mut v = b"/".to_vec(); v.extend(std::iter::repeat(b'p').take(lead)); v.extend(std::iter::repeat(0xffu8).take(total));
                longs.push(v);
                let mut v = b"/".to_vec(); v.extend(std::iter::repeat(b'p').take(lead)); for _ in 0..total { v.extend_from_slice("\u{e9}".as_bytes()); }
                longs.push(v);
            }
        }
        let mut v = b"/ok/".to_vec(); v.extend(std::iter::repeat(b'a').take(300)); v.push(0xe9);
        longs.push(v);
        for l in longs {
            cx.case("badlong");
            if cx.rec.new_flow("GET HTTP/1.1 http://a.test/ 0") != "ok" { continue; }
            let h = Hop { status: 302, locations: vec![l], body: false };
            if !exchange_to_redirect(cx, &h) { continue; }
            cx.op("follow never");
            cx.op("follow samehost");
        }
    }
    // a Host header set on the original request (virtual hosting): it names the host that request was meant for
    // and does not travel to another host; relative redirects, the way back, hosts differing in case only
    for orig in ["http://a.test/o", "http://A.test/o", "https://a.test:8443/o"] {
        for t1 in ["http://b.test/t", "/same", "//b.test/x", "http://a.test:8080/p", "https://a.test/s", "http://A.TEST/u", "../r"] {
            for t2 in ["", "/second", "http://a.test/back", "http://c.test/on"] {
                cx.case("exphost");
                if cx.rec.new_flow(&format!("GET HTTP/1.1 {} {}", orig, super::hdrs(&[("host", b"virtual.test"), ("x-keep", b"1")]))) != "ok" { continue; }
                let mut ok = true;
                for t in [t1, t2] {
                    if t.is_empty() { continue; }
                    let h = Hop { status: 302, locations: vec![t.as_bytes().to_vec()], body: false };
                    if !exchange_to_redirect(cx, &h) { ok = false; break; }
                    if !cx.op("follow samehost").starts_with("flow ") { ok = false; break; }
                }
                if !ok { continue; }
                cx.op("uri?");
                cx.op("proceed");
                cx.op("write 65536");
            }
        }
    }
    // many values under the names a redirect suppresses (cookie x 4, authorization x 2, an explicit Host, a
    // Content-Length): the suppression is by name, however many lines carry it
    for (ci, ncookie) in [1usize, 2, 4, 9].iter().enumerate() {
        for t in ["http://b.test/t", "/same"] {
            for policy in ["never", "samehost"] {
                cx.case("manyvals");
                let _ = ci;
                let cookies: Vec<String> = (0..*ncookie).map(|k| format!("c{}=v{}", k, k)).collect();
                let mut hs: Vec<(&str, &[u8])> = vec![("authorization", b"Basic YQ=="), ("host", b"virtual.test")];
                for c in &cookies { hs.push(("cookie", c.as_bytes())); }
                hs.push(("authorization", b"Bearer t"));
                hs.push(("content-length", b"5"));
                if cx.rec.new_flow(&format!("POST HTTP/1.1 http://a.test/o {}", super::hdrs(&hs))) != "ok" { continue; }
                let h = Hop { status: 303, locations: vec![t.as_bytes().to_vec()], body: false };
                if !exchange_to_redirect(cx, &h) { continue; }
                if cx.op(&format!("follow {}", policy)).starts_with("flow ") { cx.op("uri?"); cx.op("method?"); cx.op("proceed"); cx.op("write 65536"); cx.op("canproceed"); }
            }
        }
    }
    // dot segments in every position of a path-absolute or relative Location — last segment, before the query,
    // the whole path — on the first and on the second hop (the second hop's base is a URI the library made)
    for loc in ["https://app.test/#/login?next=/home", "guide.html#faq?", "#top?x=1", "/p#a?b#c", "?q=1#f?g=2", "/p?x#y?z", "#?",
                "/docs/v2/..", "/docs/v2/.", "/a/b/..?page=2", "/a/b/.?x", "/..", "/.", "/a/..", "/a/.", "/a/b/../..", "/a/./b/..", "/a/b/..#f", "a/..", "a/.", "../..", "/a/..;p", "/a/...", "/a/.b", "/a/b/%2e%2e"] {
        for first in ["/start/here", "http://b.test/x/y?z"] {
            for hop2 in [false, true] {
                cx.case("dots");
                if cx.rec.new_flow("GET HTTP/1.1 http://a.test/b/c/d?q 0") != "ok" { continue; }
                let mut ok = true;
                if hop2 {
                    let h = Hop { status: 302, locations: vec![first.as_bytes().to_vec()], body: false };
                    if !exchange_to_redirect(cx, &h) || !cx.op("follow never").starts_with("flow ") { ok = false; }
                }
                if !ok { continue; }
                let h = Hop { status: 307, locations: vec![loc.as_bytes().to_vec()], body: false };
                if !exchange_to_redirect(cx, &h) { continue; }
                if cx.op("follow samehost").starts_with("flow ") { cx.op("uri?"); cx.op("proceed"); cx.op("write 65536"); }
            }
        }
    }
    for locs in [vec![], vec![b"/caf\xe9".to_vec()], vec![b"/ok".to_vec(), b"\xff".to_vec()]] {
        cx.case("bad");
        if cx.rec.new_flow("GET HTTP/1.1 http://a.test/ 0") != "ok" { continue; }
        let h = Hop { status: 302, locations: locs, body: false };
        if !exchange_to_redirect(cx, &h) { continue; }
        cx.op("follow never");
        cx.op("follow samehost");
    }
    let n = if cx.thorough { 8000 } else { 800 };
    chains(cx, 14, n);
    // the size ladder over the Location value: a long path, a long query, a long host, many dot segments
    for l in super::ladder(cx.thorough, 32768) {
        let fill: String = (0..l).map(|i| (b'a' + (i % 26) as u8) as char).collect();
        let dots = "../".repeat(l.min(3000));
        let segs = "s/".repeat(l.min(3000));
        for (li, loc) in [format!("/{}", fill), format!("?{}", fill), format!("http://{}.test/x", fill), format!("{}g", dots), format!("/{}{}g", segs, dots), format!("{}#{}", "x", fill)].iter().enumerate() {
            cx.case("ladder");
            let _ = li;
            if cx.rec.new_flow("GET HTTP/1.1 http://a.test/b/c/d?q 0") != "ok" { continue; }
            let h = Hop { status: 302, locations: vec![loc.as_bytes().to_vec()], body: false };
            if !exchange_to_redirect(cx, &h) { continue; }
            if cx.op("follow never").starts_with("flow ") { cx.op("uri?"); cx.op("proceed"); cx.op("write 300000"); cx.op("canproceed"); }
        }
    }
}

pub fn c15(cx: &mut Ctx) {
    // exhaustive: 9 methods x 300..=399 x both policies x with/without response body
    for m in super::flowgen::METHODS {
        for status in 300u16..=399 {
            for (pi, policy) in ["never", "samehost"].iter().enumerate() {
                for body in [false, true] {
                    if !cx.thorough && !matches!(status, 300..=308 | 399 | 350) && (status as usize + pi) % 4 != 0 { continue; }
                    cx.case("tbl");
                    let needs_body = matches!(m, "POST" | "PUT" | "PATCH");
                    let hs: Vec<(&str, &[u8])> = if needs_body { vec![("content-length", b"5")] } else { vec![] };
                    if cx.rec.new_flow(&format!("{} HTTP/1.1 http://a.test/p {}", m, super::hdrs(&hs))) != "ok" { continue; }
                    let h = Hop { status, locations: vec![b"/next".to_vec()], body };
                    if !exchange_to_redirect(cx, &h) {
                        // 304 and non-redirects end in cleanup
                        cx.op("close?");
                        continue;
                    }
                    if cx.op(&format!("follow {}", policy)).starts_with("flow ") {
                        cx.op("method?");
                    }
                }
            }
        }
    }
    // the decision must follow the method, not flags that went stale on the way (Expect refused, despite)
    for m in ["POST", "PUT", "GET", "OPTIONS"] {
        for st in [307u16, 308, 302] {
            for variant in 0..2 {
                cx.case("stale");
                let needs_body = matches!(m, "POST" | "PUT");
                let mut hs: Vec<(&str, &[u8])> = vec![];
                if needs_body { hs.push(("content-length", b"5")); }
                if needs_body && variant == 1 { hs.push(("expect", b"100-continue")); }
                if cx.rec.new_flow(&format!("{} HTTP/1.1 http://a.test/p {}", m, super::hdrs(&hs))) != "ok" { continue; }
                if !needs_body && variant == 1 { cx.op("despite"); }
                cx.op("proceed"); cx.op("write 65536"); cx.op("proceed");
                let head = format!("HTTP/1.1 {} R\r\nLocation: /n\r\nContent-Length: 0\r\n\r\n", st);
                if cx.rec.state() == "await100" { cx.op(&format!("read100 {}", hx(head.as_bytes()))); cx.op("proceed"); }
                if cx.rec.state() == "sendBody" {
                    if cx.op("chunked?") == "bool true" { cx.op("bwrite - 100"); } else { cx.op("bwrite 6162636465 100"); }
                    cx.op("proceed");
                }
                cx.op(&format!("resp {}", hx(head.as_bytes())));
                cx.op("proceed");
                if cx.rec.state() != "redirect" { continue; }
                cx.op("status");
                if cx.op("follow never").starts_with("flow ") { cx.op("method?"); }
            }
        }
    }
    // the head is handed out, then try_response is asked again (nothing new / the start of the body) before
    // advancing: status and Location of the response stay those of the head
    for st in [300u16, 301, 303, 307, 304, 200] {
        for (bi, body) in ["", "hello"].iter().enumerate() {
            for again in 0..3 {
                cx.case("again");
                if cx.rec.new_flow("GET HTTP/1.1 http://a.test/p 0") != "ok" { continue; }
                cx.op("proceed"); cx.op("write 65536"); cx.op("proceed");
                let head = format!("HTTP/1.1 {} R\r\nLocation: /n\r\nContent-Length: {}\r\n\r\n", st, body.len());
                cx.op(&format!("resp {}", hx(head.as_bytes())));
                match again {
                    0 => { cx.op("resp -"); }
                    1 => { cx.op(&format!("resp {}", hx(if bi == 0 { b"HTTP/1." } else { body.as_bytes() }))); }
                    _ => { cx.op("canproceed"); cx.op("resp -"); cx.op("resp -"); }
                }
                cx.op("canproceed");
                cx.op("proceed");
                if cx.rec.state() == "recvBody" { cx.op(&format!("bread {} 100", hx(body.as_bytes()))); cx.op("proceed"); }
                if cx.rec.state() != "redirect" { cx.op("close?"); continue; }
                cx.op("status");
                if cx.op("follow never").starts_with("flow ") { cx.op("method?"); cx.op("uri?"); }
            }
        }
    }
    let n = if cx.thorough { 4000 } else { 400 };
    chains(cx, 15, n);
}
