//! Response body readers: C07 (chunked), C08 (length- and close-delimited).
use super::Ctx;
use crate::exec::hx;
use crate::rng::Rng;

pub const NEXT: &[u8] = b"HTTP/1.1 200 OK\r\nContent-Length: 0\r\n\r\n";

/// Drive a fresh GET flow to RecvBody with the given response head. Returns false if not there.
pub fn to_recv_body(cx: &mut Ctx, method: &str, head: &[u8]) -> bool {
    cx.rec.new_flow(&format!("{} HTTP/1.1 http://a.test/p 0", method));
    cx.op("proceed");
    cx.op("write 4096");
    cx.op("proceed");
    cx.op(&format!("resp {}", hx(head)));
    cx.op("proceed");
    cx.rec.state() == "recvBody"
}

/// Read a body under a schedule. `arrivals` are cumulative counts of stream bytes that have arrived;
/// after each arrival the caller reads until a read makes no progress (re-presenting the
/// unconsumed bytes, as a real caller does). Returns total consumed.
pub fn read_schedule(cx: &mut Ctx, stream: &[u8], arrivals: &[usize], caps: &mut dyn FnMut() -> usize, ask: bool) -> usize {
    let mut off = 0usize;
    let mut reads = 0;
    for &arr in arrivals {
        let arr = arr.min(stream.len());
        loop {
            if off > arr { break; }
            let cap = caps();
            let res = cx.op(&format!("bread {} {}", hx(&stream[off..arr]), cap));
            reads += 1;
            let p: Vec<&str> = res.split(' ').collect();
            if p[0] != "bytes" { return off; }
            let i: usize = p[1].parse().unwrap_or(0);
            let produced = p[2] != "-";
            off += i;
            let can = cx.op("canproceed");
            if ask { cx.op("boundary"); }
            if (i == 0 && !produced) || reads > 20000 { break; }
            if can == "bool true" && off >= arr { break; }
        }
    }
    off
}

pub struct Coding {
    pub bytes: Vec<u8>,
}

fn size_line(rng: &mut Rng, n: usize, style: usize) -> Vec<u8> {
    let mut s = match style % 7 {
        0 => format!("{:x}", n),
        1 => format!("{:X}", n),
        2 => format!("0{:x}", n),
        3 => format!("000{:X}", n),
        // zero-padded to 9, 16 and 20 digits (the longest line the decoder accepts)
        4 => format!("{:09x}", n),
        5 => format!("{:016X}", n),
        _ => format!("{:020x}", n),
    };
    match (style / 7) % 3 {
        1 => s.push_str(";x=1"),
        2 => s.push_str(&format!(";{}", "e".repeat(rng.below(6)))),
        _ => {}
    }
    // the whole line stays within the 20 byte sanity limit
    if s.len() > 20 { s.truncate(20); }
    let mut v = s.into_bytes();
    v.extend_from_slice(b"\r\n");
    v
}

pub fn make_coding(rng: &mut Rng, sizes: &[usize], styles: &[usize], trailers: usize, last_style: usize) -> Vec<u8> {
    let mut s = Vec::new();
    let mut k = 0u8;
    for (i, &n) in sizes.iter().enumerate() {
        s.extend_from_slice(&size_line(rng, n, styles[i % styles.len()]));
        for j in 0..n {
            // payload includes CR and LF and digits
            let b = match (j + k as usize) % 7 { 0 => b'\r', 1 => b'\n', 2 => b'0', 3 => b';', _ => b'a' + (j % 23) as u8 };
            s.push(b);
        }
        k = k.wrapping_add(3);
        s.extend_from_slice(b"\r\n");
    }
    s.extend_from_slice(&size_line(rng, 0, last_style));
    for t in 0..trailers {
        // trailer fields of every length: short ones and ones far longer than a size line may be
        match (t + sizes.len()) % 3 {
            0 => s.extend_from_slice(format!("T{}: v{}\r\n", t, t).as_bytes()),
            1 => s.extend_from_slice(format!("Content-MD5-{}: Q2hlY2sgSW50ZWdyaXR5IQ==\r\n", t).as_bytes()),
            _ => s.extend_from_slice(format!("Server-Timing: total;dur=12.5, db;dur={}{}\r\n", t, "9".repeat(40)).as_bytes()),
        }
    }
    s.extend_from_slice(b"\r\n");
    s
}

const CHUNKED_HEAD: &[u8] = b"HTTP/1.1 200 OK\r\nTransfer-Encoding: chunked\r\n\r\n";

fn one_c07(cx: &mut Ctx, coding: &[u8], arrivals: &[usize], caps: &mut dyn FnMut() -> usize, stop: Option<bool>) {
    one_c07_head(cx, CHUNKED_HEAD, coding, arrivals, caps, stop)
}

fn one_c07_head(cx: &mut Ctx, head: &[u8], coding: &[u8], arrivals: &[usize], caps: &mut dyn FnMut() -> usize, stop: Option<bool>) {
    if !to_recv_body(cx, "GET", head) { return; }
    cx.meta(&format!("body-stream {}", hx(coding)));
    let mut stream = coding.to_vec();
    stream.extend_from_slice(NEXT);
    if let Some(b) = stop { cx.op(&format!("stopb {}", if b { 1 } else { 0 })); }
    let mut arr = arrivals.to_vec();
    arr.push(stream.len());
    let used = read_schedule(cx, &stream, &arr, caps, stop == Some(true));
    cx.meta(&format!("consumed {}", used));
    cx.op("canproceed");
    cx.op("proceed");
}

pub fn c07(cx: &mut Ctx) {
    let mut r0 = Rng::for_case(cx.seed, 999_999);
    // the same decoding behind heads that say other things about the connection (close, HTTP/1.0 request side is
    // C08's): every single cut, so that the end of the coding arrives in two pieces wherever it can
    for head in [&b"HTTP/1.1 200 OK\r\nConnection: close\r\nTransfer-Encoding: chunked\r\n\r\n"[..], b"HTTP/1.1 200 OK\r\nTransfer-Encoding: chunked\r\nconnection: keep-alive\r\nContent-Length: 7\r\n\r\n"] {
        for sizes in [vec![], vec![2], vec![3, 1]] {
            for trailers in 0..=2usize {
                let coding = make_coding(&mut r0, &sizes, &[0], trailers, 0);
                for cut in 1..coding.len() {
                    for cap in [1000usize, 2] {
                        cx.case("closehdr");
                        let mut c = move || cap;
                        one_c07_head(cx, head, &coding, &[cut], &mut c, None);
                    }
                }
            }
        }
    }
    // the chunked body is that of a response refusing an Expect: 100-continue request (seen while awaiting, whole
    // or only its start, or after the caller gave up and sent the body)
    for route in 0..3 {
        for (coding, payload) in [("5\r\nhello\r\n3\r\nabc\r\n0\r\n\r\n", "helloabc"), ("1;x=y\r\nZ\r\n0\r\nT: v\r\n\r\n", "Z")] {
            for cap in [1usize, 3, 1000] {
                cx.case("refusedbody");
                cx.rec.new_flow(&format!("POST HTTP/1.1 http://a.test/p {}", super::hdrs(&[("expect", b"100-continue"), ("content-length", b"3")])));
                cx.op("proceed"); cx.op("write 4096"); cx.op("proceed");
                if cx.rec.state() != "await100" { continue; }
                let head: &[u8] = b"HTTP/1.1 417 Expectation Failed\r\nTransfer-Encoding: chunked\r\n\r\n";
                if route == 0 { cx.op(&format!("read100 {}", hx(head))); }
                if route == 1 { cx.op(&format!("read100 {}", hx(&head[..40]))); }
                cx.op("proceed");
                if cx.rec.state() == "sendBody" { cx.op("bwrite 616263 100"); cx.op("proceed"); }
                if cx.rec.state() != "recvResponse" { continue; }
                cx.op(&format!("resp {}", hx(head)));
                cx.op("proceed");
                if cx.rec.state() != "recvBody" { continue; }
                let _ = payload;
                cx.meta(&format!("body-stream {}", hx(coding.as_bytes())));
                let mut stream = coding.as_bytes().to_vec();
                stream.extend_from_slice(NEXT);
                let mut off = 0usize;
                for _ in 0..40 {
                    let res = cx.op(&format!("bread {} {}", hx(&stream[off..]), cap));
                    let p: Vec<&str> = res.split(' ').collect();
                    if p[0] != "bytes" { break; }
                    let i: usize = p[1].parse().unwrap_or(0);
                    off += i;
                    if i == 0 && p[2] == "-" { break; }
                }
                cx.meta(&format!("consumed {}", off));
                cx.op("canproceed");
                cx.op("proceed");
            }
        }
    }
    // exhaustive small scope: <=2 chunks of sizes {1,2,3}, styles, 0..2 trailers; all single and double cuts
    let small_sizes: Vec<Vec<usize>> = vec![vec![], vec![1], vec![2], vec![3], vec![1, 2], vec![3, 1], vec![2, 2, 1]];
    for sizes in &small_sizes {
        for trailers in 0..=2usize {
            for style in [0usize, 2, 5, 9] {
                let coding = make_coding(&mut r0, sizes, &[style, style + 1], trailers, style / 2);
                let total = coding.len() + 3;
                let caps_set: &[usize] = if cx.thorough { &[0, 1, 2, 3, 4, 1000] } else { &[1, 3, 1000] };
                for &cap in caps_set {
                    for stop in [None, Some(true)] {
                        // single cuts
                        for c1 in 0..=total {
                            if !cx.thorough && (c1 + style + cap) % 2 == 1 { continue; }
                            cx.case("cut1");
                            one_c07(cx, &coding, &[c1], &mut || cap, stop);
                        }
                    }
                }
                // double cuts, large output and a 2-byte output
                let step = if cx.thorough { 1 } else { 3 };
                let mut c1 = 0;
                while c1 <= total {
                    let mut c2 = c1;
                    while c2 <= total {
                        cx.case("cut2");
                        one_c07(cx, &coding, &[c1, c2], &mut || 1000, if (c1 + c2) % 2 == 0 { None } else { Some(true) });
                        c2 += step;
                    }
                    c1 += step;
                }
                // one byte at a time
                cx.case("bytewise");
                let arr: Vec<usize> = (1..=total).collect();
                one_c07(cx, &coding, &arr, &mut || 2, Some(style % 4 == 0));
            }
        }
    }
    // an output of exactly the payload length, then zero-sized outputs: the framing that is still pending (CRLF
    // after the data, last-chunk line, trailers, final CRLF) is consumed although nothing can be produced
    for sizes in [vec![3usize], vec![2, 2], vec![1, 3, 2]] {
        for trailers in [0usize, 1] {
            for whole in [true, false] {
                cx.case("zero");
                let coding = make_coding(&mut r0, &sizes, &[0], trailers, 0);
                if !to_recv_body(cx, "GET", CHUNKED_HEAD) { continue; }
                cx.meta(&format!("body-stream {}", hx(&coding)));
                let mut stream = coding.clone();
                stream.extend_from_slice(NEXT);
                let payload: usize = sizes.iter().sum();
                let mut off = 0usize;
                // first the payload into a buffer of exactly its size (one read per chunk when not `whole`)
                let caps: Vec<usize> = if whole { vec![payload] } else { sizes.clone() };
                for cap in caps {
                    for _ in 0..3 {
                        let res = cx.op(&format!("bread {} {}", hx(&stream[off..]), cap));
                        let p: Vec<&str> = res.split(' ').collect();
                        if p[0] != "bytes" { break; }
                        let i: usize = p[1].parse().unwrap_or(0);
                        off += i;
                        if p[2] != "-" { break; }
                    }
                }
                // then only zero-sized outputs
                for _ in 0..8 {
                    let res = cx.op(&format!("bread {} 0", hx(&stream[off.min(stream.len())..])));
                    let p: Vec<&str> = res.split(' ').collect();
                    if p[0] != "bytes" { break; }
                    let i: usize = p[1].parse().unwrap_or(0);
                    off += i;
                    if i == 0 { break; }
                }
                cx.meta(&format!("consumed {}", off));
                cx.op("canproceed");
                cx.op("proceed");
            }
        }
    }
    // long trailer sections: many short fields (67 .. 400) or a few very long ones, handed over in ONE slice, in
    // two, and in small pieces
    for (ti, (count, vlen)) in [(67usize, 20usize), (80, 22), (128, 20), (400, 18), (3, 11000), (1, 40000)].iter().enumerate() {
        let mut coding = b"3\r\nabc\r\n0\r\n".to_vec();
        for t in 0..*count { coding.extend_from_slice(format!("X-Tr-{:03}: {}\r\n", t, "v".repeat(*vlen)).as_bytes()); }
        coding.extend_from_slice(b"\r\n");
        for sched in 0..4 {
            cx.case("manytr");
            let _ = ti;
            let arr: Vec<usize> = match sched {
                0 => vec![],
                1 => vec![coding.len() / 2],
                2 => vec![11],
                _ => (1..40).map(|k| k * (coding.len() / 40).max(1)).collect(),
            };
            one_c07(cx, &coding, &arr, &mut || 100000, if sched % 2 == 0 { None } else { Some(true) });
        }
    }
    // chunk extensions are opaque: quoted strings with obs-text (bytes 0x80 .. 0xFF that are no UTF-8), on a data
    // chunk and on the last chunk, within the 20-byte line limit
    for (ei, coding) in [&b"5;a=1;b=2\r\nhello\r\n0;x;y\r\n\r\n"[..], &b"3;k=\"x;y\"\r\nabc\r\n0\r\n\r\n"[..], &b"1;;\r\na\r\n0;a;b;c;d;e;f\r\nT: v\r\n\r\n"[..],
                         &b"6;n=\"caf\xe9\"\r\nabcdef\r\n0\r\n\r\n"[..], &b"2\r\nab\r\n0;sig=\"\xff\x80\"\r\n\r\n"[..],
                         &b"1;\x80\r\na\r\n0;\xfe\xff\r\nT: 1\r\n\r\n"[..], &b"3;a=\xc3\xa9\r\nabc\r\n0\r\n\r\n"[..]].iter().enumerate() {
        for cut in [0usize, 3, 9, coding.len() - 3] {
            cx.case("obsext");
            let _ = ei;
            one_c07(cx, coding, &[cut], &mut || 64, if cut % 2 == 0 { None } else { Some(true) });
        }
    }
    // hex-digit boundaries
    for n in [15usize, 16, 17, 255, 256, 4095, 4096] {
        for style in [0usize, 1, 2, 7] {
            let coding = make_coding(&mut r0, &[n, 1], &[style], style % 2, 0);
            for cut in [0usize, 1, 2, 3, 4, 5, n, n + 3, n + 4, n + 5, n + 6, n + 7, coding.len() - 1, coding.len()] {
                cx.case("hexb");
                let cap = if cut % 2 == 0 { 100000 } else { n.max(2) - 1 };
                one_c07(cx, &coding, &[cut], &mut || cap, if cut % 3 == 0 { Some(true) } else { None });
            }
        }
    }
    // random codings and schedules
    let n = if cx.thorough { 6000 } else { 500 };
    for _ in 0..n {
        let mut r = cx.case("rnd");
        let k = r.below(5);
        let sizes: Vec<usize> = (0..k).map(|_| if r.chance(1, 12) { r.range(200, 70000) } else { r.range(1, 40) }).collect();
        let styles: Vec<usize> = (0..3).map(|_| r.below(21)).collect();
        let trailers = r.below(3);
        let last_style = r.below(21);
        let coding = make_coding(&mut r, &sizes, &styles, trailers, last_style);
        let big = coding.len() > 2000;
        let total = coding.len() + NEXT.len();
        let ncuts = if big { r.below(3) } else { r.below(8) };
        let mut arr: Vec<usize> = (0..ncuts).map(|_| r.below(total + 1)).collect();
        arr.sort();
        let capmode = r.below(4);
        let fixed = *r.pick(&[1usize, 2, 3, 5, 7, 64, 100000]);
        let mut rr = Rng(r.next() | 1);
        let stop = match r.below(3) { 0 => None, 1 => Some(true), _ => Some(false) };
        let mut capf = move || -> usize {
            if big { return 100000; }
            match capmode { 0 => fixed, 1 => 1 + rr.below(9), 2 => 100000, _ => rr.below(4) + 1 }
        };
        one_c07(cx, &coding, &arr, &mut capf, stop);
    }
    // toggling boundary stop mid-body
    for _ in 0..(if cx.thorough { 300 } else { 40 }) {
        let mut r = cx.case("toggle");
        let sizes: Vec<usize> = (0..r.range(2, 5)).map(|_| r.range(1, 9)).collect();
        let ntr = r.below(2);
        let coding = make_coding(&mut r, &sizes, &[0, 5], ntr, 0);
        if !to_recv_body(cx, "GET", CHUNKED_HEAD) { continue; }
        cx.meta(&format!("body-stream {}", hx(&coding)));
        let mut stream = coding.clone();
        stream.extend_from_slice(NEXT);
        let mut off = 0;
        for _ in 0..200 {
            if r.chance(1, 4) { cx.op(&format!("stopb {}", r.below(2))); }
            // windows large enough for the longest size line (20 digits) and for the rest of one chunk plus the next
            let upto = (off + if r.chance(1, 2) { r.range(0, 12) } else { r.range(12, 60) }).min(stream.len());
            let res = cx.op(&format!("bread {} {}", hx(&stream[off..upto]), if r.chance(1, 2) { r.range(1, 6) } else { r.range(6, 40) }));
            let p: Vec<&str> = res.split(' ').collect();
            if p[0] != "bytes" { break; }
            off += p[1].parse::<usize>().unwrap_or(0);
            cx.op("boundary");
            if cx.op("canproceed") == "bool true" { break; }
        }
        cx.meta(&format!("consumed {}", off));
        cx.op("proceed");
    }
    // the size ladder: chunk data length, trailer field length, number of trailer fields; whole, in two pieces
    // and in pieces of 1000 bytes
    for l in super::ladder(cx.thorough, 131072) {
        let data: Vec<u8> = (0..l).map(|i| b"ab\r\n0;xHTTP/1. "[i % 15]).collect();
        let mut codings: Vec<Vec<u8>> = vec![];
        if l > 0 {
            let mut c = format!("{:x}\r\n", l).into_bytes(); c.extend_from_slice(&data); c.extend_from_slice(b"\r\n0\r\n\r\n");
            codings.push(c);
        }
        codings.push(format!("2\r\nab\r\n0\r\nX-T: {}\r\n\r\n", "t".repeat(l)).into_bytes());
        if l <= 4097 {
            let mut c = b"1\r\na\r\n0\r\n".to_vec();
            for t in 0..l { c.extend_from_slice(format!("T{}: {}\r\n", t, t % 10).as_bytes()); }
            c.extend_from_slice(b"\r\n");
            codings.push(c);
        }
        for coding in &codings {
            for sched in 0..3 {
                cx.case("ladder");
                let arr: Vec<usize> = match sched { 0 => vec![], 1 => vec![coding.len() / 2, coding.len() - 1], _ => (1..=coding.len() / 1000).map(|k| k * 1000).take(200).collect() };
                let cap = if sched == 1 { 1000 } else { 200000 };
                one_c07(cx, coding, &arr, &mut || cap, if sched == 2 { Some(true) } else { None });
            }
        }
    }
    // the single-call API with boundary stopping: reads that start inside a chunk, on its pending CRLF, with small
    // outputs — still never data of two chunks in one read
    for (ci, coding) in [&b"4\r\ndata\r\n4;x\r\nmoar\r\n2\r\nzz\r\n0\r\n\r\n"[..], &b"1\r\na\r\n1\r\nb\r\n1\r\nc\r\n0\r\nT: v\r\n\r\n"[..]].iter().enumerate() {
        for cap in [1usize, 3, 5, 100] {
            for cut in [0usize, 4, 7, 8, 9, 12, coding.len()] {
                cx.case("callstop");
                let _ = ci;
                if cx.rec.new_call("nobody", "GET HTTP/1.1 http://a.test/p 0") != "ok" { continue; }
                cx.op("cwrite 4096"); cx.op("cinto");
                cx.op(&format!("cresp {}", hx(CHUNKED_HEAD)));
                if cx.op("cbody") != "state callRecvBody" { continue; }
                cx.meta(&format!("body-stream {}", hx(coding)));
                cx.op("cstopb 1");
                let mut stream = coding.to_vec();
                stream.extend_from_slice(NEXT);
                let mut off = 0usize;
                for upto in [cut.min(stream.len()), stream.len()] {
                    for _ in 0..40 {
                        if off > upto { break; }
                        let res = cx.op(&format!("cread {} {}", hx(&stream[off..upto]), cap));
                        let p: Vec<&str> = res.split(' ').collect();
                        if p[0] != "bytes" { break; }
                        let i: usize = p[1].parse().unwrap_or(0);
                        off += i;
                        cx.op("cboundary");
                        if i == 0 && p[2] == "-" { break; }
                        if cx.op("cended") == "bool true" { break; }
                    }
                }
                cx.meta(&format!("consumed {}", off));
                cx.op("cended");
            }
        }
    }
}

pub fn c08(cx: &mut Ctx) {
    // length-delimited: N small exhaustive, cuts and caps
    let nmax = if cx.thorough { 24 } else { 9 };
    for n in 0..=nmax {
        let body: Vec<u8> = (0..n).map(|i| b'A' + (i % 26) as u8).collect();
        let head = format!("HTTP/1.1 200 OK\r\nContent-Length: {}\r\n\r\n", n).into_bytes();
        let mut stream = body.clone();
        stream.extend_from_slice(NEXT);
        for cap in [0usize, 1, 2, 5, 1000] {
            for c1 in 0..=(n + 2) {
                cx.case("len");
                if !to_recv_body(cx, "GET", &head) {
                    // N = 0 goes straight to cleanup: there is no body state
                    cx.op("close?");
                    continue;
                }
                cx.meta(&format!("len {} {}", n, hx(&body)));
                cx.op("mode");
                let used = read_schedule(cx, &stream, &[c1, stream.len()], &mut || cap, false);
                cx.meta(&format!("consumed {}", used));
                // reads after the end
                cx.op(&format!("bread {} 10", hx(&stream[used.min(stream.len())..])));
                cx.op("canproceed");
                cx.op("proceed");
                cx.op("close?");
            }
        }
    }
    // advancing is tied to the body being complete whatever the status: an unguarded proceed() in the middle
    // of a length-delimited body yields nothing (also for redirects, whose successor state differs)
    for status in [200u16, 301, 302, 307, 404] {
        for n in [1usize, 2, 10] {
            for k in 0..n {
                cx.case("early");
                let body: Vec<u8> = (0..n).map(|i| b'a' + (i % 26) as u8).collect();
                let head = format!("HTTP/1.1 {} X\r\nLocation: /next\r\nContent-Length: {}\r\n\r\n", status, n).into_bytes();
                if !to_recv_body(cx, "GET", &head) { continue; }
                cx.meta(&format!("len {} {}", n, hx(&body)));
                if k > 0 { cx.op(&format!("bread {} 100", hx(&body[..k]))); }
                cx.op("canproceed");
                cx.op("proceed!");
            }
        }
    }
    // other fields in front of Content-Length — empty-valued, whitespace-only — do not change the framing
    for before in ["X-Trace:\r\n", "Server: \r\nX-A: 1\r\n", "x-e:\t\r\nX-Trace:\r\n"] {
        for n in [1usize, 4] {
            cx.case("lenafter");
            let body: Vec<u8> = (0..n).map(|i| b'k' + (i % 10) as u8).collect();
            let head = format!("HTTP/1.1 200 OK\r\n{}Content-Length: {}\r\nX-Z:\r\n\r\n", before, n).into_bytes();
            if !to_recv_body(cx, "GET", &head) { cx.op("close?"); continue; }
            cx.meta(&format!("len {} {}", n, hx(&body)));
            cx.op("mode");
            let mut stream = body.clone();
            stream.extend_from_slice(NEXT);
            let used = read_schedule(cx, &stream, &[n / 2, stream.len()], &mut || 1000, false);
            cx.meta(&format!("consumed {}", used));
            cx.op("canproceed");
            cx.op("proceed");
            cx.op("close?");
        }
    }
    // responses that cannot have a body although they declare a length (304, 204, 1xx, any answer to HEAD):
    // no body state, nothing of what follows is consumed
    for (m, status) in [("GET", 304u16), ("GET", 204), ("HEAD", 200), ("HEAD", 404), ("POST", 304), ("GET", 199)] {
        for framing in ["Content-Length: 5\r\n", "Transfer-Encoding: chunked\r\n", "Content-Length: 5\r\nConnection: keep-alive\r\n"] {
            cx.case("nobody");
            cx.meta("nobody");
            if !super::head::to_recv_response_any(cx, m) { continue; }
            let head = format!("HTTP/1.1 {} X\r\n{}\r\n", status, framing).into_bytes();
            let mut w = head.clone();
            w.extend_from_slice(NEXT);
            cx.op(&format!("resp {}", hx(&w)));
            cx.op("canproceed");
            cx.op("proceed");
            if cx.rec.state() == "recvBody" {
                cx.op("mode");
                cx.op(&format!("bread {} 100", hx(NEXT)));
                cx.op("canproceed");
                cx.op("proceed");
            }
            cx.op("close?");
        }
    }
    // the single-call API: into_body, is_ended before and after reads, read under small buffers
    for n in [0usize, 1, 2, 5, 17] {
        for cap in [1usize, 3, 1024] {
            for cut in [0usize, 1] {
                cx.case("callrecv");
                let body: Vec<u8> = (0..n).map(|i| b'm' + (i % 10) as u8).collect();
                if cx.rec.new_call("nobody", "GET HTTP/1.1 http://a.test/p 0") != "ok" { continue; }
                cx.op("cwrite 4096");
                if cx.op("cinto") != "state callRecvResponse" { continue; }
                let head = format!("HTTP/1.1 200 OK\r\nContent-Length: {}\r\n\r\n", n).into_bytes();
                cx.op(&format!("cresp {}", hx(&head)));
                cx.op("cfinished");
                if cx.op("cbody") != "state callRecvBody" { continue; }
                cx.meta(&format!("len {} {}", n, hx(&body)));
                cx.op("cended");
                let mut stream = body.clone();
                stream.extend_from_slice(NEXT);
                let mut off = 0usize;
                let first = if cut == 0 { stream.len() } else { n / 2 };
                for upto in [first, stream.len()] {
                    for _ in 0..(n + 3) {
                        if off > upto { break; }
                        let res = cx.op(&format!("cread {} {}", hx(&stream[off..upto]), cap));
                        let p: Vec<&str> = res.split(' ').collect();
                        if p[0] != "bytes" { break; }
                        let i: usize = p[1].parse().unwrap_or(0);
                        off += i;
                        cx.op("cended");
                        if i == 0 { break; }
                    }
                }
                cx.meta(&format!("consumed {}", off));
            }
        }
    }
    // an informational response first, then the length-delimited one on the same flow
    for n in [1usize, 5, 300] {
        cx.case("after1xx");
        let body: Vec<u8> = (0..n).map(|i| b'a' + (i % 26) as u8).collect();
        if !super::to_recv_response(cx, "GET", "HTTP/1.1") { continue; }
        cx.op(&format!("resp {}", hx(b"HTTP/1.1 103 Early Hints\r\nLink: </x>\r\n\r\n")));
        let head = format!("HTTP/1.1 200 OK\r\nContent-Length: {}\r\n\r\n", n).into_bytes();
        cx.meta(&format!("len {} {}", n, hx(&body)));
        cx.op(&format!("resp {}", hx(&head)));
        cx.op("proceed");
        if cx.rec.state() != "recvBody" { cx.op("close?"); continue; }
        cx.op("mode");
        let mut stream = body.clone();
        stream.extend_from_slice(NEXT);
        let used = read_schedule(cx, &stream, &[n / 2, stream.len()], &mut || 1000, false);
        cx.meta(&format!("consumed {}", used));
        cx.op("canproceed");
        cx.op("proceed");
    }
    // Transfer-Encoding values that are NOT the chunked coding although they look like it (a prefix of the word,
    // an extension of it, an empty element, an empty value): the body is the declared length, verbatim
    for te in ["chunk", "ch", "c", "chunked-v2", "chunkedd", "xchunked", "gzip,", ",", "", "chunke", "CHUNK", "chunked2, gzip",
               "chunked\u{a0}", "\u{a0}chunked", "chunked\u{85}", "gzip, \u{3000}chunked", "chunked\u{2003}", "\u{feff}chunked"] {
        for n in [5usize, 12] {
            cx.case("tenear");
            let body: Vec<u8> = (0..n).map(|i| b"5\r\nab0\r\n\r\n"[i % 10]).collect();
            let head = format!("HTTP/1.1 200 OK\r\nTransfer-Encoding: {}\r\nContent-Length: {}\r\n\r\n", te, n).into_bytes();
            cx.meta(&format!("len {} {}", n, hx(&body)));
            if !to_recv_body(cx, "GET", &head) { cx.op("close?"); continue; }
            cx.op("mode");
            let mut stream = body.clone();
            stream.extend_from_slice(NEXT);
            let used = read_schedule(cx, &stream, &[n / 2, stream.len()], &mut || 1000, false);
            cx.meta(&format!("consumed {}", used));
            cx.op("canproceed");
            cx.op("proceed");
            cx.op("close?");
        }
    }
    // a request with Expect that gave up waiting: the late 100, the head and the body arrive in ONE window (or the
    // 100 alone first); the caller drops what each call reports as consumed — the body starts where it starts
    for n in [1usize, 5, 30, 300] {
        for split in [false, true] {
            cx.case("lateboth");
            let body: Vec<u8> = (0..n).map(|i| b'a' + (i % 26) as u8).collect();
            cx.rec.new_flow(&format!("POST HTTP/1.1 http://a.test/p 2 expect {} content-length 33", hx(b"100-continue")));
            cx.op("proceed"); cx.op("write 4096"); cx.op("proceed");
            if cx.rec.state() != "await100" { continue; }
            cx.op("proceed");
            if cx.rec.state() != "sendBody" { continue; }
            cx.op("bwrite 616263 100"); cx.op("proceed");
            if cx.rec.state() != "recvResponse" { continue; }
            let mut stream = b"HTTP/1.1 100 Continue\r\n\r\n".to_vec();
            let interim = stream.len();
            stream.extend_from_slice(format!("HTTP/1.1 200 OK\r\nContent-Length: {}\r\n\r\n", n).as_bytes());
            let head_end = stream.len();
            stream.extend_from_slice(&body);
            stream.extend_from_slice(NEXT);
            let mut soff = 0usize;
            let mut got = false;
            for round in 0..4 {
                let upto = if split && round == 0 { interim } else { stream.len() };
                let res = cx.op(&format!("resp {}", hx(&stream[soff..upto])));
                let p: Vec<&str> = res.split(' ').collect();
                if p[0] != "resp" { break; }
                soff += p[1].parse::<usize>().unwrap_or(0);
                if p[2] != "none" { got = true; break; }
            }
            if !got { continue; }
            let _ = head_end;
            cx.op("proceed");
            if cx.rec.state() != "recvBody" { cx.op("close?"); continue; }
            cx.meta(&format!("len {} {}", n, hx(&body)));
            cx.op("mode");
            let rest = stream[soff.min(stream.len())..].to_vec();
            let used = read_schedule(cx, &rest, &[n / 2, rest.len()], &mut || 1000, false);
            cx.meta(&format!("consumed {}", used));
            cx.op("canproceed");
            cx.op("proceed");
        }
    }
    // an HTTP/1.0 response ignores Transfer-Encoding: with a Content-Length beside it the body is N bytes
    for (hi, head) in ["HTTP/1.0 200 OK\r\nTransfer-Encoding: chunked\r\nContent-Length: 5\r\n\r\n", "HTTP/1.0 200 OK\r\nContent-Length: 5\r\nTransfer-Encoding: chunked\r\n\r\n"].iter().enumerate() {
        for reqv in ["HTTP/1.1", "HTTP/1.0"] {
            cx.case("v10both");
            let _ = hi;
            cx.rec.new_flow(&format!("GET {} http://a.test/p 0", reqv));
            cx.op("proceed"); cx.op("write 4096"); cx.op("proceed");
            cx.op(&format!("resp {}", hx(head.as_bytes())));
            cx.op("proceed");
            if cx.rec.state() != "recvBody" { continue; }
            let body = b"hello".to_vec();
            cx.meta(&format!("len 5 {}", hx(&body)));
            cx.op("mode");
            let mut stream = body.clone();
            stream.extend_from_slice(NEXT);
            let used = read_schedule(cx, &stream, &[2, stream.len()], &mut || 1000, false);
            cx.meta(&format!("consumed {}", used));
            cx.op("canproceed");
            cx.op("proceed");
        }
    }
    // large N with windows much smaller than N
    for n in [65535u64, 65536, 70000, 4294967297, 18446744073709551615] {
        for _ in 0..3 {
            let mut r = cx.case("lenbig");
            let head = format!("HTTP/1.1 200 OK\r\nContent-Length: {}\r\n\r\n", n).into_bytes();
            if !to_recv_body(cx, "GET", &head) { continue; }
            cx.meta(&format!("lenbig {}", n));
            cx.op("mode");
            let mut done: u64 = 0;
            for _ in 0..r.range(2, 6) {
                let w = r.range(0, 3000);
                let cap = r.range(0, 4000);
                let win: Vec<u8> = (0..w).map(|i| ((done as usize + i) % 251) as u8).collect();
                let res = cx.op(&format!("bread {} {}", hx(&win), cap));
                let p: Vec<&str> = res.split(' ').collect();
                if p[0] == "bytes" { done += p[1].parse::<u64>().unwrap_or(0); }
                cx.op("canproceed");
            }
            if n <= 70000 {
                // finish it, with trailing bytes in the window
                let left = (n - done) as usize;
                let mut win: Vec<u8> = (0..left).map(|i| ((done as usize + i) % 251) as u8).collect();
                win.extend_from_slice(NEXT);
                cx.op(&format!("bread {} {}", hx(&win), left + 50));
                cx.op("canproceed");
                cx.op(&format!("bread {} 10", hx(NEXT)));
            }
            cx.op("proceed");
        }
    }
    // close-delimited: every offered byte passes through, may proceed at any time, always must-close
    let heads: Vec<&[u8]> = vec![b"HTTP/1.1 200 OK\r\n\r\n", b"HTTP/1.0 200 OK\r\n\r\n", b"HTTP/1.0 200 OK\r\nTransfer-Encoding: chunked\r\n\r\n", b"HTTP/1.1 404 Not Found\r\nX: y\r\n\r\n"];
    for head in heads {
        for reads in 0..=3usize {
            for cap in [0usize, 1, 4, 100] {
                let mut r = cx.case("close");
                if !to_recv_body(cx, "GET", head) { continue; }
                cx.meta("close");
                cx.op("mode");
                cx.op("canproceed");
                for _ in 0..reads {
                    let w = r.range(0, 12);
                    let win: Vec<u8> = (0..w).map(|_| *r.pick(b"ab\r\n0HTP/1. ")).collect();
                    cx.op(&format!("bread {} {}", hx(&win), cap));
                    cx.op("canproceed");
                }
                cx.op("proceed");
                cx.op("close?");
                cx.op("reason");
            }
        }
    }
    // close-delimited whatever the two sides say about keeping the connection: request HTTP/1.0 or 1.1 with
    // `Connection: keep-alive`, response HTTP/1.0 or 1.1 with `Connection: keep-alive` — a body that only the close
    // ends still marks the connection
    for reqv in ["HTTP/1.0", "HTTP/1.1"] {
        for reqka in [false, true] {
            for head in ["HTTP/1.0 200 OK\r\nConnection: keep-alive\r\n\r\n", "HTTP/1.1 200 OK\r\nConnection: keep-alive\r\n\r\n", "HTTP/1.0 200 OK\r\nConnection: Keep-Alive\r\nKeep-Alive: timeout=5\r\n\r\n", "HTTP/1.1 200 OK\r\n\r\n"] {
                cx.case("closeka");
                let hs: Vec<(&str, &[u8])> = if reqka { vec![("connection", b"keep-alive")] } else { vec![] };
                cx.rec.new_flow(&format!("GET {} http://a.test/p {}", reqv, super::hdrs(&hs)));
                cx.op("proceed"); cx.op("write 4096"); cx.op("proceed");
                cx.op(&format!("resp {}", hx(head.as_bytes())));
                cx.op("proceed");
                if cx.rec.state() != "recvBody" { continue; }
                cx.meta("close");
                cx.op("mode");
                cx.op("canproceed");
                cx.op(&format!("bread {} 100", hx(b"some bytes")));
                cx.op("canproceed");
                cx.op("proceed");
                cx.op("close?");
                cx.op("reason");
            }
        }
    }
    // a close-delimited body on a connection that already has every other reason to close: HTTP/1.0 request,
    // Connection: close on both sides, an Expect that was refused (with and without fields, seen in time or not)
    for reqv in ["HTTP/1.0", "HTTP/1.1"] {
        for creq in [false, true] {
            for (head, route) in [("HTTP/1.0 403 No\r\nConnection: close\r\n\r\n", 0), ("HTTP/1.1 403 No\r\nConnection: close\r\nX: y\r\n\r\n", 0), ("HTTP/1.0 200 OK\r\nconnection: close\r\n\r\n", 1), ("HTTP/1.1 403\r\n\r\n", 0), ("HTTP/1.1 403 No\r\nConnection: close\r\n\r\n", 2)] {
                cx.case("allclose");
                let mut hs: Vec<(&str, &[u8])> = vec![("content-length", b"3"), ("expect", b"100-continue")];
                if creq { hs.insert(0, ("connection", b"close")); }
                cx.rec.new_flow(&format!("POST {} http://a.test/p {}", reqv, super::hdrs(&hs)));
                cx.op("proceed"); cx.op("write 4096"); cx.op("proceed");
                if cx.rec.state() != "await100" { continue; }
                // route 0: the refusal is seen while awaiting; 1: the caller gave up, sent the body, the answer follows;
                // 2: seen while awaiting, presented twice
                if route != 1 { cx.op(&format!("read100 {}", hx(head.as_bytes()))); }
                if route == 2 { cx.op(&format!("read100 {}", hx(head.as_bytes()))); }
                cx.op("proceed");
                if cx.rec.state() == "sendBody" { cx.op("bwrite 616263 100"); cx.op("proceed"); }
                if cx.rec.state() != "recvResponse" { continue; }
                cx.op(&format!("resp {}", hx(head.as_bytes())));
                cx.op("proceed");
                if cx.rec.state() != "recvBody" { continue; }
                cx.meta("close");
                cx.op("mode");
                cx.op(&format!("bread {} 100", hx(b"until the end")));
                cx.op(&format!("bread {} 4", hx(b"more")));
                cx.op("canproceed");
                cx.op("proceed");
                cx.op("close?");
                cx.op("reason");
            }
        }
    }
    // random length-delimited
    let cnt = if cx.thorough { 3000 } else { 300 };
    for _ in 0..cnt {
        let mut r = cx.case("lenrnd");
        let n = if r.chance(1, 6) { r.range(100, 70000) } else { r.range(0, 64) };
        let body: Vec<u8> = (0..n).map(|i| ((i * 7) % 251) as u8).collect();
        let ver = if r.chance(1, 4) { "HTTP/1.0" } else { "HTTP/1.1" };
        let head = format!("{} 200 OK\r\ncontent-length: {}\r\n\r\n", ver, n).into_bytes();
        let mut stream = body.clone();
        stream.extend_from_slice(NEXT);
        if !to_recv_body(cx, "GET", &head) { cx.op("close?"); continue; }
        cx.meta(&format!("len {} {}", n, if n <= 64 { hx(&body) } else { "big".into() }));
        let big = n > 300;
        let ncuts = if big { r.below(3) } else { r.below(6) };
        let mut arr: Vec<usize> = (0..ncuts).map(|_| r.below(stream.len() + 1)).collect();
        arr.sort();
        arr.push(stream.len());
        let fixed = *r.pick(&[1usize, 3, 17, 100000]);
        let mut rr = Rng(r.next() | 1);
        let mode = r.below(3);
        let used = read_schedule(cx, &stream, &arr, &mut || if big { 100000 } else if mode == 0 { fixed } else { rr.below(9) }, false);
        cx.meta(&format!("consumed {}", used));
        cx.op("canproceed");
        cx.op("proceed");
        cx.op("close?");
    }
    // the size ladder over the declared length: read in one call into exactly that much space, into more, in
    // pieces of 1000
    for n in super::ladder(cx.thorough, 131072) {
        let body: Vec<u8> = (0..n).map(|i| b"HTTP/1.1 200\r\n0;x"[i % 17]).collect();
        let head = format!("HTTP/1.1 200 OK\r\nContent-Length: {}\r\n\r\n", n).into_bytes();
        let mut stream = body.clone();
        stream.extend_from_slice(NEXT);
        for sched in 0..3 {
            cx.case("ladder");
            if !to_recv_body(cx, "GET", &head) { cx.op("close?"); continue; }
            cx.meta(&format!("len {} {}", n, hx(&body)));
            cx.op("mode");
            let cap = match sched { 0 => n.max(1), 1 => n + 50, _ => 1000 };
            let arr: Vec<usize> = if sched == 2 { vec![n / 2, stream.len()] } else { vec![stream.len()] };
            let used = read_schedule(cx, &stream, &arr, &mut || cap, false);
            cx.meta(&format!("consumed {}", used));
            cx.op(&format!("bread {} 10", hx(&stream[used.min(stream.len())..])));
            cx.op("canproceed");
            cx.op("proceed");
            cx.op("close?");
        }
    }
}
