use super::Ctx;
pub fn c07(_cx: &mut Ctx) {}
pub fn c08(_cx: &mut Ctx) {}
