//! Request head: C02 (wire format under every buffer schedule), C16 (caller-added headers reach the
//! wire), C17 (invalid requests are rejected before a byte is emitted).
use super::Ctx;
use crate::exec::hx;
use crate::rng::Rng;

const URIS: [&str; 7] = ["http://a.test/", "http://a.test", "https://a.test:8443/p/q?x=1", "http://a.test/p", "https://b.test/d/e/f?", "http://A.test:80/p", "http://a.test/?q"];
const XNAMES: [&str; 8] = ["x-a", "x-b", "accept", "user-agent", "via", "accept", "x-long-header-name-for-width", "cookie"];

fn rand_value(r: &mut Rng) -> Vec<u8> {
    let n = if r.chance(1, 10) { r.range(30, 90) } else { r.range(0, 12) };
    (0..n).map(|_| match r.below(10) { 0 => 0x80 + r.below(128) as u8, 1 => b' ', 2 => b'\t', _ => 33 + r.below(94) as u8 }).collect()
}

pub struct ReqSpec {
    pub method: &'static str,
    pub version: &'static str,
    pub uri: &'static str,
    pub orig: Vec<(String, Vec<u8>)>,
}

impl ReqSpec {
    pub fn line(&self) -> String {
        let mut s = format!("{} {} {} {}", self.method, self.version, self.uri, self.orig.len());
        for (k, v) in &self.orig {
            s.push_str(&format!(" {} {}", k, hx(v)));
        }
        s
    }
}

/// a request C17 accepts: standard method, matching version, at most one Host / Content-Length, framing
/// only where the method takes a body
fn gen_valid_req(r: &mut Rng, norig: usize) -> ReqSpec {
    let method = *r.pick(&["GET", "HEAD", "POST", "PUT", "DELETE", "OPTIONS", "PATCH", "TRACE", "CONNECT", "GET", "POST"]);
    let version = if matches!(method, "GET" | "HEAD" | "POST") && r.chance(1, 3) { "HTTP/1.0" } else { "HTTP/1.1" };
    let uri = *r.pick(&URIS);
    let mut orig: Vec<(String, Vec<u8>)> = vec![];
    for _ in 0..norig {
        orig.push((r.pick(&XNAMES).to_string(), rand_value(r)));
    }
    if r.chance(1, 3) {
        let pos = r.below(orig.len() + 1);
        orig.insert(pos, ("host".into(), r.pick(&[&b"h.test"[..], &b"other.example:81"[..]]).to_vec()));
    }
    if matches!(method, "POST" | "PUT" | "PATCH") {
        match r.below(4) {
            0 => { let pos = r.below(orig.len() + 1); orig.insert(pos, ("content-length".into(), r.pick(&[&b"0"[..], &b"7"[..], &b"123456"[..]]).to_vec())); }
            1 => { let pos = r.below(orig.len() + 1); orig.insert(pos, ("transfer-encoding".into(), r.pick(&[&b"chunked"[..], &b"Chunked"[..]]).to_vec())); }
            _ => {}
        }
    }
    if r.chance(1, 6) { orig.push(("expect".into(), b"100-continue".to_vec())); }
    if r.chance(1, 8) { orig.push(("connection".into(), b"close".to_vec())); }
    ReqSpec { method, version, uri, orig }
}

/// drive the flow (in prepare) through an exchange answered by a redirect and follow it
fn hop(cx: &mut Ctx, r: &mut Rng, status: u16, location: &str) -> bool {
    cx.op("proceed");
    cx.op("write 65536");
    let res = cx.op("proceed");
    if res.starts_with("state await100") { cx.op("proceed"); }
    if cx.rec.state() == "sendBody" {
        let chunked = cx.op("chunked?") == "bool true";
        if chunked { cx.op("bwrite - 100"); } else {
            // finish a sized body by reporting it as written directly
            for n in [123456usize, 7, 0] { if cx.op("canproceed") == "bool true" { break; } cx.op(&format!("direct {}", n)); }
        }
        cx.op("proceed");
    }
    if cx.rec.state() != "recvResponse" { return false; }
    let head = format!("HTTP/1.1 {} R\r\nLocation: {}\r\nContent-Length: 0\r\n\r\n", status, location);
    cx.op(&format!("resp {}", hx(head.as_bytes())));
    cx.op("proceed");
    if cx.rec.state() != "redirect" { return false; }
    let res = cx.op(&format!("follow {}", r.pick(&["never", "samehost"])));
    res.starts_with("flow ")
}

/// write the head with a schedule of capacities; returns when the flow can proceed or gets stuck
fn write_schedule(cx: &mut Ctx, caps: &mut dyn FnMut() -> usize, extra_after: usize) {
    let mut stuck = 0;
    for _ in 0..400 {
        let res = cx.op(&format!("write {}", caps()));
        if cx.op("canproceed") == "bool true" { break; }
        if res.starts_with("fault") { stuck += 1; if stuck >= 3 { break; } }
    }
    for _ in 0..extra_after {
        cx.op(&format!("write {}", caps()));
        cx.op("canproceed");
    }
}

pub fn c02(cx: &mut Ctx) {
    // (a) fixed-size buffer sweep on a few shaped requests: hits |line|-1, |line|, |line|+1 for every line
    let shaped: Vec<(&str, &str, &str, Vec<(&str, &[u8])>, Vec<(&str, &[u8])>, bool)> = vec![
        ("GET", "HTTP/1.1", "http://a.test/page", vec![("x-tag", b"v")], vec![], false),
        ("GET", "HTTP/1.1", "http://a.test/page", vec![("accept", b"a"), ("accept", b"bb"), ("via", b"1"), ("via", b"2"), ("via", b"3")], vec![("x-added", b"1")], false),
        ("POST", "HTTP/1.1", "http://a.test/p?q=1", vec![("content-length", b"5")], vec![], false),
        ("POST", "HTTP/1.0", "http://a.test", vec![], vec![("cookie", b"a=b")], false),
        ("PUT", "HTTP/1.1", "https://a.test:8443/x", vec![("host", b"h.test"), ("transfer-encoding", b"chunked")], vec![], false),
        ("GET", "HTTP/1.1", "http://a.test/d", vec![], vec![], true),
        ("GET", "HTTP/1.1", "http://origin.test/d", vec![("x-first", b"1")], vec![("host", b"virtual.test"), ("x-last", b"2")], false),
        ("HEAD", "HTTP/1.1", "http://a.test/d", vec![("content-length", b"3")], vec![("z", b"\x80\xff")], true),
    ];
    for (m, v, u, orig, added, despite) in &shaped {
        let top = if cx.thorough { 140 } else { 100 };
        for cap in 0..=top {
            cx.case("sweep");
            cx.rec.new_flow(&format!("{} {} {} {}", m, v, u, super::hdrs(orig)));
            for (k, val) in added { cx.op(&format!("hdr {} {}", k, hx(val))); }
            if *despite { cx.op("despite"); }
            cx.op("proceed");
            write_schedule(cx, &mut || cap, 2);
            cx.op("proceed");
        }
    }
    // (a2) a header line longer than any scratch buffer a writer might use (1100 and 5000 bytes), as the LAST
    // line of the head: buffers of exactly the line, the line + 1, + 2 (the blank line fits only then), + 3
    for vlen in [1100usize, 5000] {
        for pos_last in [true, false] {
            let long: Vec<u8> = (0..vlen).map(|i| b'a' + (i % 26) as u8).collect();
            let orig: Vec<(&str, &[u8])> = if pos_last { vec![("x-a", b"1"), ("x-long", &long)] } else { vec![("x-long", &long), ("x-a", b"1")] };
            let line_len = "x-long: ".len() + vlen + 2;
            for first in [0usize, 19, 30] {
                for delta in 0..6usize {
                    cx.case("longlast");
                    cx.rec.new_flow(&format!("GET HTTP/1.1 http://a.test/p {}", super::hdrs(&orig)));
                    cx.op("proceed");
                    // a first buffer that takes the request line (19 bytes) or that and the host line, then the probe
                    if first > 0 { cx.op(&format!("write {}", first)); }
                    for _ in 0..3 { cx.op(&format!("write {}", line_len + delta - 2)); }
                    cx.op("canproceed");
                    cx.op("write 8000");
                    cx.op("canproceed");
                    cx.op("proceed");
                }
            }
        }
    }
    // (a3) Transfer-Encoding on several lines, chunked not on the first: the caller's framing is recognised once
    for (m, despite) in [("POST", false), ("PUT", false), ("GET", true)] {
        for (oi, orig) in [vec![("transfer-encoding", &b"gzip"[..]), ("transfer-encoding", &b"chunked"[..])],
                           vec![("transfer-encoding", &b"gzip"[..]), ("x-a", &b"1"[..]), ("transfer-encoding", &b"Chunked"[..])],
                           vec![("transfer-encoding", &b"chunked"[..])]].iter().enumerate() {
            for added_first in [false, true] {
                cx.case("multite");
                let _ = oi;
                cx.rec.new_flow(&format!("{} HTTP/1.1 http://a.test/p {}", m, super::hdrs(orig)));
                if added_first { cx.op(&format!("hdr transfer-encoding {}", hx(b"gzip"))); }
                if despite { cx.op("despite"); }
                cx.op("proceed");
                cx.op("write 30");
                cx.op("write 4096");
                cx.op("canproceed");
                cx.op("proceed");
            }
        }
    }
    // (b) random requests, random schedules, redirect depth 0..3
    let n = if cx.thorough { 6000 } else { 700 };
    for i in 0..n {
        let mut r = cx.case("rnd");
        let norig = if i % 17 == 0 { r.range(20, 60) } else { r.below(6) };
        let q = gen_valid_req(&mut r, norig);
        if cx.rec.new_flow(&q.line()) != "ok" { continue; }
        let depth = if i % 3 == 0 { r.below(4) } else { 0 };
        let mut ok = true;
        for _ in 0..depth {
            let loc = *r.pick(&["/next", "http://b.test/other?x=1", "../up", "https://a.test/s", "?only=query"]);
            let st = *r.pick(&[301u16, 302, 303, 307, 308]);
            if !hop(cx, &mut r, st, loc) { ok = false; break; }
        }
        if !ok || cx.rec.state() != "prepare" { continue; }
        let nadd = if i % 23 == 0 { r.range(20, 60) } else { r.below(4) };
        for _ in 0..nadd {
            let name = *r.pick(&["x-c", "x-d", "cookie", "authorization", "accept", "x-c"]);
            cx.op(&format!("hdr {} {}", name, hx(&rand_value(&mut r))));
        }
        // Host / framing supplied by the caller on the flow rather than on the original request
        let has = |k: &str| q.orig.iter().any(|(n, _)| n == k);
        if !has("host") && r.chance(1, 4) {
            let hv: &[u8] = if r.chance(1, 2) { b"virtual.test" } else { b"v.example:8080" };
            cx.op(&format!("hdr host {}", hx(hv)));
        }
        if matches!(q.method, "POST" | "PUT" | "PATCH") && !has("content-length") && !has("transfer-encoding") && r.chance(1, 4) {
            if r.chance(1, 2) { cx.op(&format!("hdr content-length {}", hx(b"9"))); } else { cx.op(&format!("hdr transfer-encoding {}", hx(b"chunked"))); }
        }
        let despite = !matches!(q.method, "POST" | "PUT" | "PATCH") && r.chance(1, 8);
        if despite {
            if r.chance(1, 2) { cx.op(&format!("hdr content-length {}", hx(b"4"))); }
            cx.op("despite");
        }
        cx.op("proceed");
        let mode = r.below(5);
        let fixed = r.range(0, 90);
        let mut rr = Rng(r.next() | 1);
        let mut capf = move || -> usize {
            match mode { 0 => 65536, 1 => fixed, 2 => rr.below(100), 3 => *rr.pick(&[0usize, 1, 17, 18, 19, 20, 25, 30, 40, 64, 200]), _ => 20 + rr.below(30) }
        };
        write_schedule(cx, &mut capf, r.below(3));
        cx.op("proceed");
    }
    // (c) single-call API
    for i in 0..(if cx.thorough { 600 } else { 80 }) {
        let mut r = cx.case("call");
        let k4 = r.below(4);
        let q = gen_valid_req(&mut r, k4);
        let with_body = matches!(q.method, "POST" | "PUT" | "PATCH");
        let mut args = q.line();
        let _ = i;
        if cx.rec.new_call(if with_body { "body" } else { "nobody" }, &std::mem::take(&mut args)) != "ok" { continue; }
        let cap = *r.pick(&[0usize, 10, 20, 30, 45, 1000]);
        for _ in 0..60 {
            let res = if with_body { cx.op(&format!("cbwrite 6162 {}", cap)) } else { cx.op(&format!("cwrite {}", cap)) };
            if res.starts_with("fault") { break; }
            if !with_body && cx.op("cfinished") == "bool true" { break; }
            if with_body && !res.starts_with("bytes 0") { break; }
        }
        cx.op("cfinished");
    }
    // the size ladder over every length of a request head: header value, header name, target, number of headers
    for l in super::ladder(cx.thorough, 131072) {
        let val: Vec<u8> = (0..l).map(|i| b'a' + (i % 26) as u8).collect();
        for last in [false, true] {
            cx.case("ladv");
            let orig: Vec<(&str, &[u8])> = if last { vec![("x-a", b"1"), ("x-l", &val)] } else { vec![("x-l", &val), ("x-a", b"1")] };
            if cx.rec.new_flow(&format!("GET HTTP/1.1 http://a.test/p {}", super::hdrs(&orig))) != "ok" { continue; }
            cx.op("proceed");
            let line = 5 + l + 2;
            // one byte short of the long line, exactly the line, then everything
            cx.op(&format!("write {}", 40));
            cx.op(&format!("write {}", line - 1));
            cx.op(&format!("write {}", line));
            cx.op("canproceed");
            cx.op("write 300000");
            cx.op("canproceed");
            cx.op("proceed");
        }
        if l >= 1 && l <= 32768 {
            cx.case("ladn");
            let name: String = (0..l).map(|i| (b'a' + (i % 26) as u8) as char).collect();
            if cx.rec.new_flow(&format!("GET HTTP/1.1 http://a.test/p {}", super::hdrs(&[(&name, b"v"), ("x-a", b"1")]))) == "ok" {
                cx.op("proceed");
                cx.op(&format!("write {}", l + 4));
                cx.op(&format!("write {}", l + 5));
                cx.op("write 300000");
                cx.op("canproceed");
                cx.op("proceed");
            }
        }
        if l <= 65000 {
            cx.case("ladt");
            let path: String = (0..l).map(|i| (b'a' + (i % 26) as u8) as char).collect();
            for uri in [format!("http://a.test/{}", path), format!("http://a.test/p?{}", path)] {
                if cx.rec.new_flow(&format!("GET HTTP/1.1 {} 1 x-a 31", uri)) != "ok" { continue; }
                cx.op("proceed");
                cx.op(&format!("write {}", l + 10));
                cx.op("write 300000");
                cx.op("canproceed");
                cx.op("proceed");
            }
        }
        if l <= 2049 {
            cx.case("ladc");
            let hs: Vec<(String, Vec<u8>)> = (0..l).map(|k| (format!("x-h{}", k), vec![b'0' + (k % 10) as u8])).collect();
            let hr: Vec<(&str, &[u8])> = hs.iter().map(|(k, v)| (k.as_str(), v.as_slice())).collect();
            if cx.rec.new_flow(&format!("GET HTTP/1.1 http://a.test/p {}", super::hdrs(&hr))) != "ok" { continue; }
            cx.op("proceed");
            cx.op("write 64");
            cx.op("write 300000");
            cx.op("canproceed");
            cx.op("proceed");
        }
    }
}

pub fn c16(cx: &mut Ctx) {
    let names = ["cookie", "authorization", "content-length", "host", "connection", "x-added", "x-added", "accept", "transfer-encoding", "expect"];
    let n = if cx.thorough { 5000 } else { 600 };
    for i in 0..n {
        let mut r = cx.case("add");
        let k5 = r.below(5);
        let mut q = gen_valid_req(&mut r, k5);
        if r.chance(1, 2) { q.orig.push(("cookie".into(), b"old=1".to_vec())); }
        if r.chance(1, 2) { q.orig.push(("authorization".into(), b"Basic b2xk".to_vec())); }
        if cx.rec.new_flow(&q.line()) != "ok" { continue; }
        let depth = r.below(4);
        let mut ok = true;
        for _ in 0..depth {
            let loc = *r.pick(&["/next", "http://b.test/other", "https://a.test/s", "x/y"]);
            let st = *r.pick(&[301u16, 302, 303, 307, 308]);
            if !hop(cx, &mut r, st, loc) { ok = false; break; }
        }
        if !ok || cx.rec.state() != "prepare" { continue; }
        let nadd = if i % 19 == 0 { r.range(30, 60) } else { r.below(5) };
        for _ in 0..nadd {
            let name = *r.pick(&names);
            let val: Vec<u8> = match name {
                "content-length" => b"3".to_vec(),
                "transfer-encoding" => b"chunked".to_vec(),
                "expect" => b"100-continue".to_vec(),
                "connection" => r.pick(&[&b"close"[..], &b"keep-alive"[..]]).to_vec(),
                "host" => b"added.test".to_vec(),
                _ => { let mut v = rand_value(&mut r); if v.is_empty() { v = b"v".to_vec(); } v }
            };
            cx.op(&format!("hdr {} {}", name, hx(&val)));
        }
        if r.chance(1, 6) { cx.op("despite"); }
        cx.op("proceed");
        let cap = if r.chance(1, 3) { r.range(40, 120) } else { 65536 };
        write_schedule(cx, &mut || cap, 0);
        cx.op("proceed");
    }
    // the size ladder over what a caller may add: value length, name length, number of added headers
    for l in super::ladder(cx.thorough, 131072) {
        cx.case("ladv");
        if cx.rec.new_flow("GET HTTP/1.1 http://a.test/p 2 x-o 31 cookie 6f3d31") != "ok" { continue; }
        let val: Vec<u8> = (0..l).map(|i| b'a' + (i % 26) as u8).collect();
        cx.op(&format!("hdr x-first {}", hx(b"1")));
        cx.op(&format!("hdr x-long {}", hx(&val)));
        cx.op(&format!("hdr x-last {}", hx(b"2")));
        cx.op("proceed");
        cx.op("write 64");
        cx.op(&format!("write {}", l + 10));
        cx.op("write 300000");
        cx.op("canproceed");
        cx.op("proceed");
        if l >= 1 && l <= 32768 {
            cx.case("ladn");
            if cx.rec.new_flow("GET HTTP/1.1 http://a.test/p 1 x-o 31") != "ok" { continue; }
            let name: String = (0..l).map(|i| (b'a' + (i % 26) as u8) as char).collect();
            cx.op(&format!("hdr {} {}", name, hx(b"v")));
            cx.op(&format!("hdr x-last {}", hx(b"2")));
            cx.op("proceed");
            cx.op("write 300000");
            cx.op("canproceed");
            cx.op("proceed");
        }
        if l <= 60 {
            cx.case("ladc");
            if cx.rec.new_flow("GET HTTP/1.1 http://a.test/p 1 x-o 31") != "ok" { continue; }
            for k in 0..l { if cx.op(&format!("hdr x-a{} {}", k, hx(&[b'0' + (k % 10) as u8]))) != "unit" { break; } }
            cx.op("proceed");
            cx.op("write 300000");
            cx.op("canproceed");
            cx.op("proceed");
        }
    }
    // the accessor headers_map(): what the caller added is in it, on a fresh flow and on one made for a redirect,
    // also under the names a redirect suppresses
    for depth in 0..2usize {
        for names in [vec!["cookie", "x-added"], vec!["authorization", "host"], vec!["content-length"], vec!["x-a", "x-b", "cookie", "cookie"]] {
            cx.case("hmap");
            if cx.rec.new_flow("GET HTTP/1.1 http://a.test/o 3 cookie 6f3d31 authorization 42 x-o 35") != "ok" { continue; }
            let mut r = Rng::for_case(cx.seed, 1600);
            let mut ok = true;
            for _ in 0..depth { if !hop(cx, &mut r, 303, "http://b.test/n") { ok = false; break; } }
            if !ok || cx.rec.state() != "prepare" { continue; }
            for n in &names {
                let v: &[u8] = match *n { "content-length" => b"3", "host" => b"added.test", _ => b"val" };
                cx.op(&format!("hdr {} {}", n, hx(v)));
            }
            if names.contains(&"content-length") && depth > 0 { cx.op("despite"); }
            cx.op("proceed");
            cx.op("hmap");
            cx.op("write 65536");
            cx.op("hmap");
            cx.op("canproceed");
        }
    }
}

const VERSIONS: [&str; 5] = ["HTTP/0.9", "HTTP/1.0", "HTTP/1.1", "HTTP/2.0", "HTTP/3.0"];

pub fn c17(cx: &mut Ctx) {
    let hosts: [&[(&str, &[u8])]; 5] = [&[], &[("host", b"h.test")], &[("host", b"h.test"), ("host", b"i.test")], &[("host", b"h\xfft")], &[("host", b"b\xc3\xbccher.test")]];
    let cls: [&[(&str, &[u8])]; 12] = [&[], &[("content-length", b"0")], &[("content-length", b"7")], &[("content-length", b"7"), ("content-length", b"7")], &[("content-length", b"-1")], &[("content-length", b"abc")], &[("content-length", b"+5")], &[("content-length", b"\xe9")],
        &[("content-length", b"")], &[("content-length", b"+")], &[("content-length", b"18446744073709551615")], &[("content-length", b"18446744073709551616")]];
    let tes: [&[(&str, &[u8])]; 3] = [&[], &[("transfer-encoding", b"chunked")], &[("transfer-encoding", b"\xff")]];
    let mut r0 = Rng::for_case(cx.seed, 171717);
    for v in VERSIONS {
        for m in super::flowgen::METHODS {
            for (hi, h) in hosts.iter().enumerate() {
                for (ci, c) in cls.iter().enumerate() {
                    for (ti, t) in tes.iter().enumerate() {
                        for despite in [false, true] {
                            for api in 0..3 {
                                // the full product is ~65k requests; quick runs a third of it, always keeping the accepted corner
                                let keep = cx.thorough || (hi + ci + ti == 0) || r0.below(3) == 0;
                                if !keep { continue; }
                                if api > 0 && despite { continue; }
                                // where the headers live: all original, or the framing ones added by the caller
                                let added_split = (hi + ci + ti + api) % 2 == 1;
                                let mut orig: Vec<(&str, &[u8])> = vec![];
                                let mut added: Vec<(&str, &[u8])> = vec![];
                                orig.extend_from_slice(h);
                                if added_split && api == 0 { added.extend_from_slice(c); added.extend_from_slice(t); } else { orig.extend_from_slice(c); orig.extend_from_slice(t); }
                                cx.case("req");
                                let args = format!("{} {} http://a.test/x {}", m, v, super::hdrs(&orig));
                                match api {
                                    0 => {
                                        if cx.rec.new_flow(&args) != "ok" { continue; }
                                        for (k, val) in &added { cx.op(&format!("hdr {} {}", k, hx(val))); }
                                        if despite { cx.op("despite"); }
                                        cx.op("proceed");
                                        cx.op("write 1000");
                                        cx.op("canproceed");
                                        cx.op("write 1000");
                                        cx.op("write 10");
                                        cx.op("canproceed");
                                        cx.op("proceed");
                                    }
                                    1 => {
                                        if cx.rec.new_call("nobody", &args) != "ok" { continue; }
                                        cx.op("cwrite 1000");
                                        cx.op("cfinished");
                                        cx.op("cwrite 1000");
                                        cx.op("cfinished");
                                    }
                                    _ => {
                                        if cx.rec.new_call("body", &args) != "ok" { continue; }
                                        cx.op("cbwrite 61 1000");
                                        cx.op("cbwrite 61 1000");
                                        cx.op("cfinished");
                                    }
                                }
                            }
                        }
                    }
                }
            }
        }
    }
    // the same rules on a flow created for a redirect: headers the caller adds there count in full, also when
    // they are named like the ones suppressed from the previous request
    for (ai, added) in [vec![("content-length", &b"3"[..])], vec![("content-length", &b"3"[..]), ("content-length", &b"3"[..])],
                        vec![("content-length", &b"abc"[..])], vec![("content-length", &b"-1"[..])], vec![("host", &b"x.test"[..]), ("host", &b"y.test"[..])],
                        vec![("transfer-encoding", &b"chunked"[..])], vec![("content-length", &b"4"[..]), ("cookie", &b"n=1"[..])]].iter().enumerate() {
        for depth in [1usize, 2] {
            for despite in [false, true] {
                for orig_cl in [false, true] {
                    cx.case("redir");
                    let mut hs: Vec<(&str, &[u8])> = vec![("cookie", b"o=1"), ("authorization", b"Basic b2xk")];
                    if orig_cl { hs.push(("content-length", b"5")); }
                    let m = if orig_cl { "POST" } else { "GET" };
                    if cx.rec.new_flow(&format!("{} HTTP/1.1 http://a.test/o {}", m, super::hdrs(&hs))) != "ok" { continue; }
                    let mut r = Rng::for_case(cx.seed, 1700 + ai as u64);
                    let mut ok = true;
                    for _ in 0..depth { if !hop(cx, &mut r, 303, "/next") { ok = false; break; } }
                    if !ok || cx.rec.state() != "prepare" { continue; }
                    for (k, v) in added { cx.op(&format!("hdr {} {}", k, hx(v))); }
                    if despite { cx.op("despite"); }
                    cx.op("proceed");
                    cx.op("write 1000");
                    cx.op("canproceed");
                    cx.op("write 1000");
                    cx.op("canproceed");
                    cx.op("proceed");
                }
            }
        }
    }
    // a method that takes no body, sent with one at the caller's wish (Content-Length on the original request),
    // redirected with the method kept (307 / 308) or rewritten (301 / 302 / 303): the follow-up request is an
    // ordinary bodiless one unless the caller says otherwise again
    for m in ["GET", "HEAD", "OPTIONS", "DELETE", "TRACE"] {
        for status in [301u16, 302, 303, 307, 308] {
            for (vi, cl) in ["4", "0"].iter().enumerate() {
                for despite2 in [false, true] {
                    cx.case("keep");
                    let _ = vi;
                    let hs: Vec<(&str, &[u8])> = vec![("x-a", b"1"), ("content-length", cl.as_bytes())];
                    if cx.rec.new_flow(&format!("{} HTTP/1.1 http://a.test/o {}", m, super::hdrs(&hs))) != "ok" { continue; }
                    cx.op("despite");
                    let mut r = Rng::for_case(cx.seed, 1800 + status as u64);
                    if !hop(cx, &mut r, status, "/next") || cx.rec.state() != "prepare" { continue; }
                    if despite2 { cx.op("despite"); }
                    cx.op("proceed");
                    cx.op("write 1000");
                    cx.op("canproceed");
                    cx.op("write 1000");
                    cx.op("canproceed");
                    cx.op("proceed");
                }
            }
        }
    }
    // the size ladder: a Content-Length written with leading zeros, the second Host / Content-Length far behind
    // the first, a long run of other headers in front of the framing header
    for l in super::ladder(cx.thorough, 2048) {
        let zeros: Vec<u8> = std::iter::repeat(b'0').take(l).chain(std::iter::once(b'7')).collect();
        for m in ["POST", "GET"] {
            cx.case("ladz");
            if cx.rec.new_flow(&format!("{} HTTP/1.1 http://a.test/x {}", m, super::hdrs(&[("content-length", &zeros)]))) != "ok" { continue; }
            cx.op("proceed"); cx.op("write 300000"); cx.op("canproceed"); cx.op("write 300000"); cx.op("canproceed"); cx.op("proceed");
        }
        for (first, second) in [("host", "host"), ("content-length", "content-length"), ("x-none", "content-length"), ("x-none", "transfer-encoding")] {
            for m in ["POST", "GET"] {
                cx.case("ladfar");
                let mut hs: Vec<(String, Vec<u8>)> = vec![(first.to_string(), b"7".to_vec())];
                for k in 0..l { hs.push((format!("x-f{}", k), b"v".to_vec())); }
                hs.push((second.to_string(), if second == "transfer-encoding" { b"chunked".to_vec() } else { b"7".to_vec() }));
                let hr: Vec<(&str, &[u8])> = hs.iter().map(|(k, v)| (k.as_str(), v.as_slice())).collect();
                if cx.rec.new_flow(&format!("{} HTTP/1.1 http://a.test/x {}", m, super::hdrs(&hr))) != "ok" { continue; }
                cx.op("proceed"); cx.op("write 300000"); cx.op("canproceed"); cx.op("write 300000"); cx.op("canproceed"); cx.op("proceed");
            }
        }
    }
    // Transfer-Encoding on several lines: framing is declared when ANY of them says chunked (first, middle or
    // last; original or added by the caller) — on a method that takes no body that is refused
    for m in ["GET", "HEAD", "DELETE", "POST"] {
        for tes in [vec!["chunked", "gzip"], vec!["gzip", "chunked"], vec!["gzip", "Chunked", "identity"], vec!["gzip", "identity"], vec!["chunked", "chunked"]] {
            for split in 0..=tes.len() {
                for despite in [false, true] {
                    cx.case("multite");
                    let orig: Vec<(&str, &[u8])> = tes[split..].iter().map(|v| ("transfer-encoding", v.as_bytes())).collect();
                    if cx.rec.new_flow(&format!("{} HTTP/1.1 http://a.test/x {}", m, super::hdrs(&orig))) != "ok" { continue; }
                    for v in &tes[..split] { cx.op(&format!("hdr transfer-encoding {}", hx(v.as_bytes()))); }
                    if despite { cx.op("despite"); }
                    cx.op("proceed"); cx.op("write 1000"); cx.op("canproceed"); cx.op("write 1000"); cx.op("canproceed"); cx.op("proceed");
                }
            }
        }
    }
}
