use super::Ctx;
pub fn c02(_cx: &mut Ctx) {}
pub fn c16(_cx: &mut Ctx) {}
pub fn c17(_cx: &mut Ctx) {}
