//! xorshift64 PRNG; every random choice of a case derives from one state seeded by (seed, case index).
pub struct Rng(pub u64);

impl Rng {
    pub fn for_case(seed: u64, case: u64) -> Rng {
        let mut x = seed.wrapping_mul(0x9E3779B97F4A7C15) ^ (case.wrapping_add(1)).wrapping_mul(0xD1B54A32D192ED03);
        x ^= x >> 29;
        Rng(x | 1)
    }
    pub fn next(&mut self) -> u64 {
        let mut x = self.0;
        x ^= x << 13;
        x ^= x >> 7;
        x ^= x << 17;
        self.0 = x;
        x
    }
    pub fn below(&mut self, n: usize) -> usize {
        if n == 0 {
            return 0;
        }
        (self.next() % (n as u64)) as usize
    }
    pub fn range(&mut self, lo: usize, hi: usize) -> usize {
        lo + self.below(hi - lo + 1)
    }
    pub fn chance(&mut self, num: u64, den: u64) -> bool {
        self.next() % den < num
    }
    pub fn pick<'a, T>(&mut self, v: &'a [T]) -> &'a T {
        &v[self.below(v.len())]
    }
}
